#![no_main]
// Schedule engine (E1) under libFuzzer (no sanitizer: coroutine stack switching and ASan do not mix
// without fiber annotations). The schedule bytes are part of the fuzzed input.
use libfuzzer_sys::fuzz_target;

fuzz_target!(|data: &[u8]| {
    #[cfg(orx_concurrent_iter_verif)]
    vharness::fuzzrun::sched_one(data);
    #[cfg(not(orx_concurrent_iter_verif))]
    let _ = data;
});
