#![no_main]
// Sequential engines (E2/E3) under libFuzzer with AddressSanitizer + LeakSanitizer: the semantic oracles
// of the property named by VERIF_FUZZ_PROP run inside the target; memory errors are visible failures too.
use libfuzzer_sys::fuzz_target;

fuzz_target!(|data: &[u8]| {
    vharness::fuzzrun::seq_one(data);
});
