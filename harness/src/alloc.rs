//! Engine E3 (second half): gated allocation accounting.
//!
//! A `#[global_allocator]` wrapper around the system allocator that keeps a per-thread balance of
//! live bytes and blocks, **only while the thread-local gate is on**. A case is run completely inside
//! the gate (source construction, operations, terminal, dropping everything it produced, including
//! the recorded history), so every allocation of the harness itself is released inside the gate too
//! and the balance of a leak-free case is exactly zero.

use std::alloc::{GlobalAlloc, Layout, System};
use std::cell::Cell;

pub struct Counting;

thread_local! {
    static GATE: Cell<bool> = const { Cell::new(false) };
    static BYTES: Cell<i64> = const { Cell::new(0) };
    static BLOCKS: Cell<i64> = const { Cell::new(0) };
}

#[inline]
fn add(bytes: i64, blocks: i64) {
    // `try_with`: the allocator is also called while thread-locals are being destroyed
    let _ = GATE.try_with(|g| {
        if g.get() {
            let _ = BYTES.try_with(|b| b.set(b.get() + bytes));
            let _ = BLOCKS.try_with(|b| b.set(b.get() + blocks));
        }
    });
}

unsafe impl GlobalAlloc for Counting {
    unsafe fn alloc(&self, l: Layout) -> *mut u8 {
        let p = System.alloc(l);
        if !p.is_null() {
            add(l.size() as i64, 1);
        }
        p
    }
    unsafe fn dealloc(&self, p: *mut u8, l: Layout) {
        System.dealloc(p, l);
        add(-(l.size() as i64), -1);
    }
    unsafe fn alloc_zeroed(&self, l: Layout) -> *mut u8 {
        let p = System.alloc_zeroed(l);
        if !p.is_null() {
            add(l.size() as i64, 1);
        }
        p
    }
    unsafe fn realloc(&self, p: *mut u8, l: Layout, new_size: usize) -> *mut u8 {
        let q = System.realloc(p, l, new_size);
        if !q.is_null() {
            add(new_size as i64 - l.size() as i64, 0);
        }
        q
    }
}

/// Runs `f` with the gate on and returns its result together with the (bytes, blocks) balance of this thread.
pub fn gated<R>(f: impl FnOnce() -> R) -> (R, i64, i64) {
    let (b0, k0) = (BYTES.with(|b| b.get()), BLOCKS.with(|b| b.get()));
    let prev = GATE.with(|g| g.replace(true));
    let r = f();
    GATE.with(|g| g.set(prev));
    let (b1, k1) = (BYTES.with(|b| b.get()), BLOCKS.with(|b| b.get()));
    (r, b1 - b0, k1 - k0)
}

/// Runs `f` with the gate off (thread creation / join and other harness-only work).
pub fn paused<R>(f: impl FnOnce() -> R) -> R {
    let prev = GATE.with(|g| g.replace(false));
    let r = f();
    GATE.with(|g| g.set(prev));
    r
}

/// Adds a balance measured on another thread to this thread's counters (only meaningful inside a gate).
pub fn absorb(bytes: i64, blocks: i64) {
    BYTES.with(|b| b.set(b.get() + bytes));
    BLOCKS.with(|b| b.set(b.get() + blocks));
}
