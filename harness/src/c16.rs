//! C16: boundary arithmetic. An exhaustively enumerated grid of extreme ranges and chunk sizes,
//! judged by the u128 cursor model; evaluated in both overflow modes through the twin processes.

use crate::case::*;
use crate::driver::Outcome;
use crate::history::{History, Res, Tag, TermRes};
use crate::oracle::{self, kind_class, Violation};
use proptest::prelude::*;

const M: usize = usize::MAX;
const H: usize = usize::MAX / 2;

pub fn bounds() -> Vec<usize> {
    vec![0, 1, 2, 3, 5, H - 2, H - 1, H, H + 1, H + 2, M - 5, M - 3, M - 2, M - 1, M]
}

/// chunk sizes of interest for a source of `len` elements
pub fn sizes(len: usize) -> Vec<usize> {
    let mut v = vec![0, 1, len.wrapping_sub(1), len, len.wrapping_add(1), H, H + 1, M - 2, M - 1, M];
    v.retain(|x| *x != M || true);
    v.sort();
    v.dedup();
    v
}

fn expects_zero_size_panic(op: &Op) -> bool {
    matches!(
        op,
        Op::BufNew { n: 0 }
            | Op::Drain(How::Buf(0))
            | Op::Drain(How::ForEach(0))
            | Op::Drain(How::EnumForEach(0))
            | Op::Drain(How::Fold(0))
    )
}

fn bad(what: &'static str, detail: String) -> Result<(), Violation> {
    Err(Violation { what, detail })
}

/// The C16 oracle over a sequential history.
pub fn c16_oracle(h: &History) -> Result<(), Violation> {
    let case = &h.case;
    // 1. panics: exactly the documented zero-size panics, nothing else
    for (t, ops) in case.threads.iter().enumerate() {
        for (i, op) in ops.iter().enumerate() {
            let rec = h.ops.iter().find(|o| o.thread == t && o.op_idx == i && matches!(o.res, Res::Panicked(_)));
            match (expects_zero_size_panic(op), rec) {
                (true, Some(_)) => {
                    // the documented panic (its wording is not part of the property)
                }
                (true, None) => {
                    // only if the thread got that far
                    let reached = !h.ops.iter().any(|o| o.thread == t && o.op_idx < i && matches!(o.res, Res::Panicked(_)));
                    if reached {
                        return bad("missing-zero-size-panic", format!("{} did not panic although a chunk size of zero is documented to panic", op));
                    }
                }
                (false, Some(r)) => {
                    if let Res::Panicked(m) = &r.res {
                        return bad("panic", format!("op #{} {} of thread {} panicked: {}", i, op, t, m));
                    }
                }
                (false, None) => {}
            }
        }
    }
    if let TermRes::Panicked(m) = &h.term {
        return bad("panic", format!("the terminal ({:?}) panicked: {}", case.terminal, m));
    }
    // 2. the model, step by step, on the history without the expected panics
    let mut f = h.clone();
    f.ops.retain(|o| !matches!(o.res, Res::Panicked(_)));
    match oracle::c04_linearizable(&f) {
        Ok(Some(_)) => {}
        Ok(None) => {}
        Err(v) => {
            return Err(Violation {
                what: "model-mismatch",
                detail: v.detail.replace("no linearization of the recorded history matches the sequential cursor", "results differ from the mathematical (u128) cursor model"),
            })
        }
    }
    // 3. chunk contract for n >= 1 (never an empty chunk, exact announced length)
    for (i, o) in f.ops.iter().enumerate() {
        if let Res::Chunk { announced, len_ok, begin, .. } = &o.res {
            if *announced == 0 {
                return bad("empty-chunk", format!("op #{} {:?} returned an empty chunk", i, o.tag));
            }
            if !*len_ok {
                return bad("len-trajectory", format!("op #{} {:?}: len() of the chunk is inconsistent", i, o.tag));
            }
            if begin.checked_add(*announced).map_or(true, |e| e > f.info.len) {
                return bad("out-of-range", format!("op #{} {:?}: chunk [{}, +{}) exceeds the source length {}", i, o.tag, begin, announced, f.info.len));
            }
        }
    }
    // 4. lengths
    oracle::c11_quiescent(&f)?;
    // 5. remainder against the model cursor
    let mut pos: u128 = 0;
    let mut skipped = false;
    let mut composite = false;
    for o in &f.ops {
        if o.is_pull() && !skipped {
            // pulls after a skip deliver nothing: the delivered prefix ends at the cursor of the first skip
            pos += o.requested() as u128;
        }
        if o.tag == Tag::Skip {
            skipped = true;
        }
        if o.tag == Tag::CompositeDone && !skipped {
            // a returned for_each / fold / drain has consumed everything
            pos = pos.max(f.info.len as u128);
            composite = true;
        }
    }
    if composite && f.info.len <= 64 && !skipped {
        // composites hide their pulls from the cursor model: check coverage instead
        oracle::c01_exactly_once(&f).map_err(|v| Violation { what: v.what, detail: format!("with a huge chunk size: {}", v.detail) })?;
        oracle::c02_index_fidelity(&f)?;
    }
    let len = f.info.len;
    let p = pos.min(len as u128) as usize;
    if let TermRes::Seq { items, total } = &f.term {
        let mut first_pos = None;
        for (j, it) in items.iter().enumerate() {
            let q = match f.info.pos_of_val(it.val) {
                Some(q) => q,
                None => return bad("remainder-out-of-range", format!("the remainder yields {:#x}, which is not an element of the source", it.val)),
            };
            match first_pos {
                None => first_pos = Some(q),
                Some(fp) => {
                    if q != fp + j {
                        return bad("remainder-order", format!("remainder item {} is position {} (first was {})", j, q, fp));
                    }
                }
            }
        }
        if !skipped {
            if let Some(fp) = first_pos {
                if fp != p {
                    return bad("remainder-start", format!("the cursor is at {}, the remainder starts at position {}", p, fp));
                }
            }
            if let Some(t) = total {
                if p + t != len {
                    return bad("remainder-count", format!("cursor {} + remainder {} != length {}", p, t, len));
                }
            }
        } else if let Some(fp) = first_pos {
            if fp < p {
                return bad("remainder-overlaps-delivered", format!("remainder starts at {} before the cursor {}", fp, p));
            }
            if let Some(t) = total {
                if fp + t != len {
                    return bad("remainder-not-suffix", format!("remainder [{}, +{}) is not a suffix of the source", fp, t));
                }
            }
        }
    }
    Ok(())
}

fn near_boundary(x: usize) -> bool {
    x <= 5 || (x >= H - 5 && x <= H + 5) || x >= M - 5
}

pub fn eval_c16(case: &Case) -> Outcome {
    if crate::zsthuge::is_huge_zst(case) {
        return crate::zsthuge::eval_c16_huge(case);
    }
    let h = crate::seq::run_seq(case);
    let verdict = c16_oracle(&h);
    let mut classes = vec![kind_class(case.kind)];
    let mut nontrivial = false;
    if case.kind.is_range() {
        let (s, e) = crate::sources::range_bounds(case);
        if s > e {
            classes.push("inverted-range");
        } else if s == e {
            classes.push("empty-range");
        }
        if s >= H - 5 || e >= H - 5 {
            classes.push("range-near-half-or-max");
            nontrivial = true;
        }
    }
    for t in &case.threads {
        for op in t {
            let n = match op {
                Op::Chunk { n, .. } | Op::BufNew { n } => Some(*n),
                Op::Drain(hw) => Some(hw.chunk_size()),
                _ => None,
            };
            if let Some(n) = n {
                if n == 0 {
                    classes.push("chunk-size-0");
                    nontrivial = true;
                } else if n >= H - 5 {
                    classes.push("huge-chunk-size");
                    nontrivial = true;
                } else if near_boundary(n) {
                    nontrivial = true;
                }
            }
        }
    }
    classes.sort();
    classes.dedup();
    Outcome {
        verdict,
        sig_ctx: kind_class(case.kind).to_string(),
        nontrivial,
        classes,
        inconclusive: false,
        evals: 1,
        dfs: None,
        witness: None,
    }
}

fn tails() -> Vec<Vec<Op>> {
    vec![
        vec![],
        vec![Op::Next],
        vec![Op::Next, Op::NextIdVal, Op::Len],
        vec![Op::Chunk { n: M, take: 2 }, Op::Next],
        vec![Op::Chunk { n: 1, take: M }, Op::HasMore, Op::Next, Op::Next],
        vec![Op::Skip, Op::Next, Op::HasMore, Op::Chunk { n: 2, take: M }],
        vec![Op::Len, Op::Next, Op::Next, Op::Next, Op::Next, Op::Next, Op::Next, Op::Len],
        vec![Op::Chunk { n: H, take: 1 }, Op::Chunk { n: H + 2, take: 1 }, Op::NextIdVal, Op::Next],
    ]
}

fn mk(kind: Kind, len: usize, rs: usize, re: Option<usize>, hint: Hint, t0: Vec<Op>, t1: Vec<Op>, terminal: Terminal) -> Case {
    let mut c = Case::simple(kind, len, vec![t0]);
    if !t1.is_empty() {
        c.threads.push(t1);
    }
    c.range_start = rs;
    c.range_end = re;
    c.hint = hint;
    c.terminal = terminal;
    c.vseed = 7;
    c
}

/// The grid of the property's quantifier, enumerated completely.
pub fn grid() -> Vec<Case> {
    let mut out = vec![];
    let terms = [Terminal::Drop, Terminal::IntoSeq { take: 3 }];
    // (a) ranges: bounds^2, both constructors, one-shot and buffered first pulls of every size
    for &s in &bounds() {
        for &e in &bounds() {
            let len = e.saturating_sub(s);
            for (ki, kind) in [Kind::Range, Kind::RangeInto].into_iter().enumerate() {
                for (si, &n) in sizes(len).iter().enumerate() {
                    for (ti, tail) in tails().into_iter().enumerate() {
                        // thin the product deterministically: every (range, size) pair with 3 of the 8 tails
                        if (si + ti + ki) % 3 != 0 && !(n == 0 || n >= H) {
                            continue;
                        }
                        for (bi, buffered) in [false, true].into_iter().enumerate() {
                            let term = terms[(si + ti + bi) % 2];
                            let mut t0 = vec![];
                            let mut t1 = vec![];
                            if buffered {
                                if n == 0 {
                                    t1.push(Op::BufNew { n: 0 });
                                    t0.extend(tail.clone());
                                } else {
                                    t0.push(Op::BufNew { n });
                                    t0.push(Op::BufNext { take: 2 });
                                    t0.extend(tail.clone());
                                    t0.push(Op::BufNext { take: 1 });
                                }
                            } else {
                                t0.push(Op::Chunk { n, take: 2 });
                                t0.extend(tail.clone());
                            }
                            if (si + ti) % 2 == 0 && n >= H {
                                // the same after one ordinary pull: begin > 0 when the huge size arrives
                                let mut p0 = vec![Op::Next];
                                p0.extend(t0.clone());
                                out.push(mk(kind, 0, s, Some(e), Hint::Exact, p0, t1.clone(), term));
                            }
                            out.push(mk(kind, 0, s, Some(e), Hint::Exact, t0, t1, term));
                        }
                    }
                }
            }
        }
    }
    // (b) every other kind with small lengths
    for &kind in ALL_KINDS.iter().filter(|k| !k.is_range()) {
        for &len in &[0usize, 1, 2, 3, 5] {
            let hints: &[Hint] = if kind.wrapped() { &[Hint::Exact, Hint::Unbounded] } else { &[Hint::Exact] };
            for &hint in hints {
                for &n in &sizes(len) {
                    for (ti, tail) in tails().into_iter().enumerate() {
                        for buffered in [false, true] {
                            let term = terms[ti % 2];
                            let mut t0 = vec![];
                            let mut t1 = vec![];
                            if buffered {
                                // wrapped iterators allocate chunk_size slots by documentation: sizes <= 4096 only
                                let nb = if kind.wrapped() && n > 4096 { 4096 - (M - n).min(4095) } else { n };
                                if nb == 0 {
                                    t1.push(Op::BufNew { n: 0 });
                                    t0.extend(tail.clone());
                                } else {
                                    t0.push(Op::BufNew { n: nb });
                                    t0.push(Op::BufNext { take: 2 });
                                    t0.extend(tail.clone());
                                    t0.push(Op::BufNext { take: 1 });
                                }
                            } else {
                                t0.push(Op::Chunk { n, take: 2 });
                                t0.extend(tail.clone());
                            }
                            if n >= H {
                                let mut p0 = vec![Op::NextIdVal];
                                p0.extend(t0.clone());
                                out.push(mk(kind, len, 0, None, hint, p0, t1.clone(), term));
                            }
                            out.push(mk(kind, len, 0, None, hint, t0, t1, term));
                        }
                    }
                }
                // documented zero-size panics of for_each / fold
                for how in [How::ForEach(0), How::EnumForEach(0), How::Fold(0), How::Buf(0)] {
                    out.push(mk(kind, len, 0, None, hint, vec![Op::Next], vec![Op::Drain(how)], Terminal::Drop));
                }
                // huge chunk sizes through the composites on known-size kinds
                if !kind.wrapped() {
                    for how in [How::ForEach(M), How::Fold(H + 1), How::EnumForEach(M - 1), How::Buf(M), How::Chunk(M)] {
                        out.push(mk(kind, len, 0, None, hint, vec![Op::Next, Op::Drain(how), Op::Next, Op::Len], vec![], Terminal::IntoSeq { take: 2 }));
                    }
                }
            }
        }
    }
    out
}

fn boundary_usize() -> BoxedStrategy<usize> {
    prop_oneof![
        3 => 0usize..=6,
        2 => (0usize..=6).prop_map(|d| H - 3 + d),
        3 => (0usize..=6).prop_map(|d| M - d),
    ]
    .boxed()
}

/// Random neighbours of the grid (thorough tier): boundary ranges / sizes with random tails.
pub fn random_strategy() -> BoxedStrategy<Case> {
    let op = prop_oneof![
        3 => Just(Op::Next),
        2 => Just(Op::NextIdVal),
        4 => (boundary_usize(), 0usize..3).prop_map(|(n, take)| Op::Chunk { n, take }),
        1 => Just(Op::Len),
        1 => Just(Op::HasMore),
        1 => Just(Op::Skip),
        2 => (0usize..3).prop_map(|take| Op::BufNext { take }),
    ];
    let kinds: Vec<Kind> = ALL_KINDS.to_vec();
    (
        0..kinds.len(),
        boundary_usize(),
        boundary_usize(),
        0usize..=5,
        proptest::option::of(boundary_usize()),
        proptest::collection::vec(op, 0..10),
        any::<bool>(),
        any::<bool>(),
    )
        .prop_map(move |(k, s, e, len, bufn, ops, seq, unb)| {
            let kind = kinds[k];
            let len = if kind.is_array() { crate::gen::nearest_arr_len(len) } else { len };
            let mut t0 = vec![];
            if let Some(n) = bufn {
                let n = if kind.wrapped() && n > 4096 { 1 + (n % 7) } else { n.max(1) };
                t0.push(Op::BufNew { n });
            }
            t0.extend(ops);
            mk(
                kind,
                len,
                s,
                Some(e),
                if unb { Hint::Unbounded } else { Hint::Exact },
                t0,
                vec![],
                if seq { Terminal::IntoSeq { take: 3 } } else { Terminal::Drop },
            )
        })
        .boxed()
}
