//! Case types shared by every engine: source kinds, operations, faults, and their text form.
//!
//! A case is plain data. It has (a) proptest strategies (gen.rs), (b) a byte decoder for libFuzzer
//! (fuzzdec.rs) and (c) a JSON text form (this file) which is the replay file format.

use serde_json::{json, Value};
use std::fmt;

#[derive(Clone, Copy, Debug, PartialEq, Eq, Hash, PartialOrd, Ord)]
pub enum Kind {
    /// `(&[T]).into_con_iter()`
    Slice,
    /// `(&[T]).con_iter()`
    SliceCon,
    /// `Vec<T>::con_iter()`
    VecRef,
    /// `[T; N]::con_iter()`
    ArrRef,
    /// `Vec<T>::into_con_iter()`
    VecOwn,
    /// `[T; N]::into_con_iter()`
    ArrOwn,
    /// `Range<usize>::con_iter()`
    Range,
    /// `Range<usize>::into_con_iter()`
    RangeInto,
    /// wrapped probe iterator yielding owned elements
    IterOwn,
    /// wrapped probe iterator yielding references into a slice
    IterRef,
    ClonedSlice,
    ClonedVecRef,
    ClonedArrRef,
    ClonedIterRef,
    CopiedSlice,
    CopiedVecRef,
    CopiedArrRef,
    CopiedIterRef,
}

pub const ALL_KINDS: &[Kind] = &[
    Kind::Slice,
    Kind::SliceCon,
    Kind::VecRef,
    Kind::ArrRef,
    Kind::VecOwn,
    Kind::ArrOwn,
    Kind::Range,
    Kind::RangeInto,
    Kind::IterOwn,
    Kind::IterRef,
    Kind::ClonedSlice,
    Kind::ClonedVecRef,
    Kind::ClonedArrRef,
    Kind::ClonedIterRef,
    Kind::CopiedSlice,
    Kind::CopiedVecRef,
    Kind::CopiedArrRef,
    Kind::CopiedIterRef,
];

/// Array lengths instantiated by macro.
pub const ARR_LENS: &[usize] = &[0, 1, 2, 3, 4, 5, 8, 13, 150, 1300];

impl Kind {
    pub fn name(self) -> &'static str {
        match self {
            Kind::Slice => "Slice",
            Kind::SliceCon => "SliceCon",
            Kind::VecRef => "VecRef",
            Kind::ArrRef => "ArrRef",
            Kind::VecOwn => "VecOwn",
            Kind::ArrOwn => "ArrOwn",
            Kind::Range => "Range",
            Kind::RangeInto => "RangeInto",
            Kind::IterOwn => "IterOwn",
            Kind::IterRef => "IterRef",
            Kind::ClonedSlice => "ClonedSlice",
            Kind::ClonedVecRef => "ClonedVecRef",
            Kind::ClonedArrRef => "ClonedArrRef",
            Kind::ClonedIterRef => "ClonedIterRef",
            Kind::CopiedSlice => "CopiedSlice",
            Kind::CopiedVecRef => "CopiedVecRef",
            Kind::CopiedArrRef => "CopiedArrRef",
            Kind::CopiedIterRef => "CopiedIterRef",
        }
    }
    pub fn parse(s: &str) -> Option<Kind> {
        ALL_KINDS.iter().copied().find(|k| k.name() == s)
    }
    /// the iterator wraps an arbitrary sequential iterator (ticket protocol, waiting allowed)
    pub fn wrapped(self) -> bool {
        matches!(
            self,
            Kind::IterOwn | Kind::IterRef | Kind::ClonedIterRef | Kind::CopiedIterRef
        )
    }
    /// elements are moved out of an owned collection
    pub fn consuming(self) -> bool {
        matches!(self, Kind::VecOwn | Kind::ArrOwn | Kind::IterOwn)
    }
    pub fn is_range(self) -> bool {
        matches!(self, Kind::Range | Kind::RangeInto)
    }
    pub fn is_array(self) -> bool {
        matches!(
            self,
            Kind::ArrRef | Kind::ArrOwn | Kind::ClonedArrRef | Kind::CopiedArrRef
        )
    }
    pub fn adaptor(self) -> bool {
        matches!(
            self,
            Kind::ClonedSlice
                | Kind::ClonedVecRef
                | Kind::ClonedArrRef
                | Kind::ClonedIterRef
                | Kind::CopiedSlice
                | Kind::CopiedVecRef
                | Kind::CopiedArrRef
                | Kind::CopiedIterRef
        )
    }
    /// items are references into the source collection (address identity is checked)
    pub fn yields_refs(self) -> bool {
        matches!(
            self,
            Kind::Slice | Kind::SliceCon | Kind::VecRef | Kind::ArrRef | Kind::IterRef
        )
    }
    /// the underlying reference-yielding kind of an adaptor
    pub fn underlying(self) -> Kind {
        match self {
            Kind::ClonedSlice | Kind::CopiedSlice => Kind::Slice,
            Kind::ClonedVecRef | Kind::CopiedVecRef => Kind::VecRef,
            Kind::ClonedArrRef | Kind::CopiedArrRef => Kind::ArrRef,
            Kind::ClonedIterRef | Kind::CopiedIterRef => Kind::IterRef,
            k => k,
        }
    }
    /// `Clone` is implemented for the iterator type
    pub fn clonable(self) -> bool {
        matches!(
            self,
            Kind::Slice | Kind::SliceCon | Kind::VecRef | Kind::ArrRef | Kind::Range | Kind::RangeInto
        )
    }
}

/// Size hint reported by the wrapped probe iterator (always truthful).
#[derive(Clone, Copy, Debug, PartialEq, Eq, Hash)]
pub enum Hint {
    /// `(len, Some(len))`
    Exact,
    /// `(len/2, Some(len+3))`
    Inexact,
    /// `(0, None)`
    Unbounded,
}

impl Hint {
    pub fn name(self) -> &'static str {
        match self {
            Hint::Exact => "exact",
            Hint::Inexact => "inexact",
            Hint::Unbounded => "unbounded",
        }
    }
    pub fn parse(s: &str) -> Option<Hint> {
        [Hint::Exact, Hint::Inexact, Hint::Unbounded]
            .into_iter()
            .find(|h| h.name() == s)
    }
}

/// How a `Drain` composite pulls until it observes the end.
#[derive(Clone, Copy, Debug, PartialEq, Eq, Hash)]
pub enum How {
    Next,
    NextIdVal,
    Chunk(usize),
    Buf(usize),
    Values,
    IdsValues,
    ForEach(usize),
    EnumForEach(usize),
    Fold(usize),
}

#[derive(Clone, Copy, Debug, PartialEq, Eq, Hash)]
pub enum Op {
    Next,
    NextIdVal,
    /// one-shot chunk of size `n`; consume `take` items (clamped), drop the rest with the chunk
    Chunk { n: usize, take: usize },
    /// (re)create this thread's buffered iterator with chunk size `n`
    BufNew { n: usize },
    /// pull the next chunk from this thread's buffered iterator (no-op if none was created)
    BufNext { take: usize },
    Len,
    HasMore,
    Skip,
    /// `for v in it.values().take(max)`
    ValuesLoop { max: usize },
    /// `for (i, v) in it.ids_and_values().take(max)`
    IdsValuesLoop { max: usize },
    Drain(How),
    /// the thread panics in user code (unrelated to the iterator) while a drop guard is alive that pulls
    /// `k` elements with `next()` during the unwinding; the thread ends afterwards
    UnwindPull { k: usize },
    // ---- safe low-level calls of `AtomicIter` / `AtomicCounter` (C14 run-time part) ----
    LlGet { idx: usize },
    LlFetchOne,
    LlFetchN { n: usize, take: usize },
    LlProgress { n: usize },
    LlEarlyExit,
    LlStore { v: usize },
    LlFetchAdd { n: usize },
}

impl Op {
    /// an elementary pull (timed, enters the linearizability search)
    pub fn is_pull(&self) -> bool {
        matches!(
            self,
            Op::Next | Op::NextIdVal | Op::Chunk { .. } | Op::BufNext { .. }
        )
    }
    pub fn is_low_level(&self) -> bool {
        matches!(
            self,
            Op::LlGet { .. }
                | Op::LlFetchOne
                | Op::LlFetchN { .. }
                | Op::LlProgress { .. }
                | Op::LlEarlyExit
                | Op::LlStore { .. }
                | Op::LlFetchAdd { .. }
        )
    }
}

fn fmt_usize(n: usize) -> String {
    if n == usize::MAX {
        "MAX".into()
    } else if n > usize::MAX - 64 {
        format!("MAX-{}", usize::MAX - n)
    } else if n >= usize::MAX / 2 - 64 && n <= usize::MAX / 2 + 64 {
        let h = usize::MAX / 2;
        if n >= h {
            format!("HALF+{}", n - h)
        } else {
            format!("HALF-{}", h - n)
        }
    } else {
        n.to_string()
    }
}

pub fn parse_usize(s: &str) -> Option<usize> {
    let s = s.trim();
    if s == "MAX" {
        return Some(usize::MAX);
    }
    if let Some(r) = s.strip_prefix("MAX-") {
        return r.parse::<usize>().ok().map(|d| usize::MAX - d);
    }
    if let Some(r) = s.strip_prefix("HALF+") {
        return r.parse::<usize>().ok().map(|d| usize::MAX / 2 + d);
    }
    if let Some(r) = s.strip_prefix("HALF-") {
        return r.parse::<usize>().ok().map(|d| usize::MAX / 2 - d);
    }
    s.parse().ok()
}

impl fmt::Display for How {
    fn fmt(&self, f: &mut fmt::Formatter<'_>) -> fmt::Result {
        match self {
            How::Next => write!(f, "next"),
            How::NextIdVal => write!(f, "nextidval"),
            How::Chunk(n) => write!(f, "chunk:{}", fmt_usize(*n)),
            How::Buf(n) => write!(f, "buf:{}", fmt_usize(*n)),
            How::Values => write!(f, "values"),
            How::IdsValues => write!(f, "idsvalues"),
            How::ForEach(n) => write!(f, "foreach:{}", fmt_usize(*n)),
            How::EnumForEach(n) => write!(f, "enumforeach:{}", fmt_usize(*n)),
            How::Fold(n) => write!(f, "fold:{}", fmt_usize(*n)),
        }
    }
}

impl How {
    pub fn parse(s: &str) -> Option<How> {
        let (head, arg) = match s.split_once(':') {
            Some((h, a)) => (h, Some(parse_usize(a)?)),
            None => (s, None),
        };
        Some(match (head, arg) {
            ("next", None) => How::Next,
            ("nextidval", None) => How::NextIdVal,
            ("values", None) => How::Values,
            ("idsvalues", None) => How::IdsValues,
            ("chunk", Some(n)) => How::Chunk(n),
            ("buf", Some(n)) => How::Buf(n),
            ("foreach", Some(n)) => How::ForEach(n),
            ("enumforeach", Some(n)) => How::EnumForEach(n),
            ("fold", Some(n)) => How::Fold(n),
            _ => return None,
        })
    }
    pub fn chunk_size(&self) -> usize {
        match self {
            How::Chunk(n) | How::Buf(n) | How::ForEach(n) | How::EnumForEach(n) | How::Fold(n) => *n,
            _ => 1,
        }
    }
}

impl fmt::Display for Op {
    fn fmt(&self, f: &mut fmt::Formatter<'_>) -> fmt::Result {
        let u = fmt_usize;
        match self {
            Op::Next => write!(f, "Next"),
            Op::NextIdVal => write!(f, "NextIdVal"),
            Op::Chunk { n, take } => write!(f, "Chunk({},{})", u(*n), u(*take)),
            Op::BufNew { n } => write!(f, "BufNew({})", u(*n)),
            Op::BufNext { take } => write!(f, "BufNext({})", u(*take)),
            Op::Len => write!(f, "Len"),
            Op::HasMore => write!(f, "HasMore"),
            Op::Skip => write!(f, "Skip"),
            Op::ValuesLoop { max } => write!(f, "ValuesLoop({})", u(*max)),
            Op::IdsValuesLoop { max } => write!(f, "IdsValuesLoop({})", u(*max)),
            Op::Drain(h) => write!(f, "Drain({})", h),
            Op::UnwindPull { k } => write!(f, "UnwindPull({})", u(*k)),
            Op::LlGet { idx } => write!(f, "LlGet({})", u(*idx)),
            Op::LlFetchOne => write!(f, "LlFetchOne"),
            Op::LlFetchN { n, take } => write!(f, "LlFetchN({},{})", u(*n), u(*take)),
            Op::LlProgress { n } => write!(f, "LlProgress({})", u(*n)),
            Op::LlEarlyExit => write!(f, "LlEarlyExit"),
            Op::LlStore { v } => write!(f, "LlStore({})", u(*v)),
            Op::LlFetchAdd { n } => write!(f, "LlFetchAdd({})", u(*n)),
        }
    }
}

impl Op {
    pub fn parse(s: &str) -> Option<Op> {
        let s = s.trim();
        let (head, args): (&str, Vec<&str>) = match s.split_once('(') {
            Some((h, rest)) => {
                let rest = rest.strip_suffix(')')?;
                (h, rest.split(',').map(|x| x.trim()).collect())
            }
            None => (s, vec![]),
        };
        let a = |i: usize| -> Option<usize> { parse_usize(args.get(i)?) };
        Some(match (head, args.len()) {
            ("Next", 0) => Op::Next,
            ("NextIdVal", 0) => Op::NextIdVal,
            ("Chunk", 2) => Op::Chunk { n: a(0)?, take: a(1)? },
            ("BufNew", 1) => Op::BufNew { n: a(0)? },
            ("BufNext", 1) => Op::BufNext { take: a(0)? },
            ("Len", 0) => Op::Len,
            ("HasMore", 0) => Op::HasMore,
            ("Skip", 0) => Op::Skip,
            ("ValuesLoop", 1) => Op::ValuesLoop { max: a(0)? },
            ("IdsValuesLoop", 1) => Op::IdsValuesLoop { max: a(0)? },
            ("Drain", 1) => Op::Drain(How::parse(args[0])?),
            ("UnwindPull", 1) => Op::UnwindPull { k: a(0)? },
            ("LlGet", 1) => Op::LlGet { idx: a(0)? },
            ("LlFetchOne", 0) => Op::LlFetchOne,
            ("LlFetchN", 2) => Op::LlFetchN { n: a(0)?, take: a(1)? },
            ("LlProgress", 1) => Op::LlProgress { n: a(0)? },
            ("LlEarlyExit", 0) => Op::LlEarlyExit,
            ("LlStore", 1) => Op::LlStore { v: a(0)? },
            ("LlFetchAdd", 1) => Op::LlFetchAdd { n: a(0)? },
            _ => return None,
        })
    }
}

/// What happens to the iterator after all threads are done (owner thread).
#[derive(Clone, Copy, Debug, PartialEq, Eq, Hash)]
pub enum Terminal {
    Drop,
    /// `into_seq_iter()`, consume `take` items of the remainder (clamped), drop the rest
    IntoSeq { take: usize },
}

#[derive(Clone, Copy, Debug, PartialEq, Eq, Hash)]
pub enum FaultSite {
    /// the k-th call (0-based, counted over the whole case) of the wrapped probe's `next` panics
    ProbeNext,
    /// the k-th `clone` of an element panics
    Clone,
    /// the k-th invocation of a for_each / fold closure panics
    Closure,
    /// the k-th destructor call of an element that runs inside an operation of a thread panics (never while
    /// that thread is already unwinding)
    Drop,
}

#[derive(Clone, Copy, Debug, PartialEq, Eq, Hash)]
pub struct Fault {
    pub site: FaultSite,
    pub k: usize,
}

/// Element layout (C08 / C15 use several; everything else uses `Tracked`).
#[derive(Clone, Copy, Debug, PartialEq, Eq, Hash)]
pub enum Layout {
    /// 24-byte element without heap, destructor counted in the ledger
    Tracked,
    /// element that owns a heap block (`Box`), for allocation accounting and sanitizers
    Boxed,
    /// zero-sized element with a counted destructor
    Zst,
    /// `String` payload
    Str,
}

impl Layout {
    pub fn name(self) -> &'static str {
        match self {
            Layout::Tracked => "tracked",
            Layout::Boxed => "boxed",
            Layout::Zst => "zst",
            Layout::Str => "string",
        }
    }
    pub fn parse(s: &str) -> Option<Layout> {
        [Layout::Tracked, Layout::Boxed, Layout::Zst, Layout::Str]
            .into_iter()
            .find(|h| h.name() == s)
    }
}

#[derive(Clone, Debug, PartialEq, Eq, Hash)]
pub struct Case {
    pub kind: Kind,
    pub hint: Hint,
    pub layout: Layout,
    pub len: usize,
    /// for ranges: start of the range (`start..start+len`, or explicit `range_end` for inverted / boundary ranges)
    pub range_start: usize,
    /// for ranges: explicit end (None => start+len)
    pub range_end: Option<usize>,
    /// extra capacity of the source vector (VecOwn)
    pub extra_cap: usize,
    /// adaptor kinds (and their underlying kinds in the lock-step): number of elements pulled from the
    /// underlying iterator *before* `cloned()` / `copied()` is applied
    pub pre: usize,
    /// seed of the element values
    pub vseed: u64,
    pub threads: Vec<Vec<Op>>,
    /// schedule bytes (E1 only)
    pub sched: Vec<u8>,
    /// (thread, k): the thread is suspended at its k-th yield point until all others are done
    pub freeze: Option<(usize, usize)>,
    pub fault: Option<Fault>,
    pub terminal: Terminal,
    /// E1 only: number of further unsuccessful polls a waiting thread makes before the scheduler treats it as
    /// waiting (0 = the scheduler runs somebody else as soon as the wait is recognised); exercises back-off
    /// paths behind a poll-count threshold
    pub spin: usize,
    /// a thread whose operation panicked (injected fault, caught per operation) continues with its next
    /// operation on the same handles instead of ending like a panicking scoped thread
    pub keep_going: bool,
}

impl Case {
    pub fn simple(kind: Kind, len: usize, threads: Vec<Vec<Op>>) -> Case {
        Case {
            kind,
            hint: Hint::Exact,
            layout: Layout::Tracked,
            len,
            range_start: 0,
            range_end: None,
            extra_cap: 0,
            pre: 0,
            vseed: 1,
            threads,
            sched: vec![],
            freeze: None,
            fault: None,
            terminal: Terminal::Drop,
            spin: 0,
            keep_going: false,
        }
    }

    pub fn to_json(&self) -> Value {
        let threads: Vec<Value> = self
            .threads
            .iter()
            .map(|t| Value::String(t.iter().map(|o| o.to_string()).collect::<Vec<_>>().join("; ")))
            .collect();
        let sched: String = self
            .sched
            .iter()
            .map(|b| format!("{:02x}", b))
            .collect::<Vec<_>>()
            .join(" ");
        let mut v = json!({
            "v": 1,
            "kind": self.kind.name(),
            "len": self.len,
            "vseed": self.vseed,
            "threads": threads,
            "terminal": match self.terminal { Terminal::Drop => "Drop".to_string(), Terminal::IntoSeq{take} => format!("IntoSeq({})", fmt_usize(take)) },
        });
        let m = v.as_object_mut().expect("object");
        if self.kind.wrapped() {
            m.insert("hint".into(), json!(self.hint.name()));
        }
        if self.layout != Layout::Tracked {
            m.insert("layout".into(), json!(self.layout.name()));
        }
        if self.kind.is_range() {
            m.insert("range_start".into(), json!(fmt_usize(self.range_start)));
            if let Some(e) = self.range_end {
                m.insert("range_end".into(), json!(fmt_usize(e)));
            }
        }
        if self.extra_cap != 0 {
            m.insert("extra_cap".into(), json!(self.extra_cap));
        }
        if self.pre != 0 {
            m.insert("pre".into(), json!(self.pre));
        }
        if !self.sched.is_empty() {
            m.insert("sched".into(), json!(sched));
        }
        if let Some((t, k)) = self.freeze {
            m.insert("freeze".into(), json!([t, k]));
        }
        if self.spin != 0 {
            m.insert("spin".into(), json!(self.spin));
        }
        if self.keep_going {
            m.insert("keep_going".into(), json!(true));
        }
        if let Some(f) = self.fault {
            let s = match f.site {
                FaultSite::ProbeNext => "ProbeNext",
                FaultSite::Clone => "Clone",
                FaultSite::Closure => "Closure",
                FaultSite::Drop => "Drop",
            };
            m.insert("fault".into(), json!(format!("{}({})", s, f.k)));
        }
        v
    }

    pub fn to_text(&self) -> String {
        serde_json::to_string_pretty(&self.to_json()).expect("json")
    }

    /// one-line form for evidence samples
    pub fn to_line(&self) -> String {
        serde_json::to_string(&self.to_json()).expect("json")
    }

    pub fn from_json(v: &Value) -> Result<Case, String> {
        let s = |k: &str| -> Option<&str> { v.get(k).and_then(|x| x.as_str()) };
        let kind = Kind::parse(s("kind").ok_or("kind missing")?).ok_or("bad kind")?;
        let len = v.get("len").and_then(|x| x.as_u64()).ok_or("len missing")? as usize;
        let vseed = v.get("vseed").and_then(|x| x.as_u64()).unwrap_or(1);
        let hint = match s("hint") {
            Some(h) => Hint::parse(h).ok_or("bad hint")?,
            None => Hint::Exact,
        };
        let layout = match s("layout") {
            Some(h) => Layout::parse(h).ok_or("bad layout")?,
            None => Layout::Tracked,
        };
        let range_start = match s("range_start") {
            Some(x) => parse_usize(x).ok_or("bad range_start")?,
            None => 0,
        };
        let range_end = match s("range_end") {
            Some(x) => Some(parse_usize(x).ok_or("bad range_end")?),
            None => None,
        };
        let extra_cap = v.get("extra_cap").and_then(|x| x.as_u64()).unwrap_or(0) as usize;
        let pre = v.get("pre").and_then(|x| x.as_u64()).unwrap_or(0) as usize;
        let spin = v.get("spin").and_then(|x| x.as_u64()).unwrap_or(0) as usize;
        let keep_going = v.get("keep_going").and_then(|x| x.as_bool()).unwrap_or(false);
        let mut threads = vec![];
        for t in v
            .get("threads")
            .and_then(|x| x.as_array())
            .ok_or("threads missing")?
        {
            let line = t.as_str().ok_or("thread must be a string")?;
            let mut ops = vec![];
            for part in line.split(';') {
                if part.trim().is_empty() {
                    continue;
                }
                ops.push(Op::parse(part).ok_or_else(|| format!("bad op '{}'", part))?);
            }
            threads.push(ops);
        }
        let sched = match s("sched") {
            Some(x) => x
                .split_whitespace()
                .map(|b| u8::from_str_radix(b, 16).map_err(|e| e.to_string()))
                .collect::<Result<Vec<u8>, String>>()?,
            None => vec![],
        };
        let freeze = match v.get("freeze").and_then(|x| x.as_array()) {
            Some(a) if a.len() == 2 => Some((
                a[0].as_u64().ok_or("bad freeze")? as usize,
                a[1].as_u64().ok_or("bad freeze")? as usize,
            )),
            _ => None,
        };
        let fault = match s("fault") {
            Some(x) => {
                let (h, r) = x.split_once('(').ok_or("bad fault")?;
                let k: usize = r
                    .strip_suffix(')')
                    .ok_or("bad fault")?
                    .parse()
                    .map_err(|_| "bad fault k")?;
                let site = match h {
                    "ProbeNext" => FaultSite::ProbeNext,
                    "Clone" => FaultSite::Clone,
                    "Closure" => FaultSite::Closure,
                    "Drop" => FaultSite::Drop,
                    _ => return Err("bad fault site".into()),
                };
                Some(Fault { site, k })
            }
            None => None,
        };
        let terminal = match s("terminal").unwrap_or("Drop") {
            "Drop" => Terminal::Drop,
            x => {
                let r = x
                    .strip_prefix("IntoSeq(")
                    .and_then(|r| r.strip_suffix(')'))
                    .ok_or("bad terminal")?;
                Terminal::IntoSeq {
                    take: parse_usize(r).ok_or("bad terminal take")?,
                }
            }
        };
        Ok(Case {
            kind,
            hint,
            layout,
            len,
            range_start,
            range_end,
            extra_cap,
            pre,
            vseed,
            threads,
            sched,
            freeze,
            fault,
            terminal,
            spin,
            keep_going,
        })
    }

    pub fn parse(text: &str) -> Result<Case, String> {
        let v: Value = serde_json::from_str(text).map_err(|e| e.to_string())?;
        Case::from_json(&v)
    }

    /// stable 64-bit hash of the case (FNV-1a over the one-line text form)
    pub fn hash64(&self) -> u64 {
        fnv1a(self.to_line().as_bytes())
    }
}

pub fn fnv1a(bytes: &[u8]) -> u64 {
    let mut h: u64 = 0xcbf29ce484222325;
    for b in bytes {
        h ^= *b as u64;
        h = h.wrapping_mul(0x100000001b3);
    }
    h
}

/// splitmix64: the only source of element values (pure function of `vseed` and position)
pub fn mix(seed: u64, k: u64) -> u64 {
    let mut z = seed
        .wrapping_mul(0x9E3779B97F4A7C15)
        .wrapping_add(k.wrapping_mul(0xBF58476D1CE4E5B9))
        .wrapping_add(0x94D049BB133111EB);
    z = (z ^ (z >> 30)).wrapping_mul(0xBF58476D1CE4E5B9);
    z = (z ^ (z >> 27)).wrapping_mul(0x94D049BB133111EB);
    z ^ (z >> 31)
}
