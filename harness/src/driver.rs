//! Campaign driver: runs a generated-case search on all cores with proptest, shrinks the first
//! failure, writes the replay file and accumulates the evidence counters.

use crate::case::Case;
use crate::oracle::Violation;
use proptest::strategy::BoxedStrategy;
use proptest::test_runner::{Config, RngAlgorithm, RngSeed, TestCaseError, TestError, TestRunner};
use serde_json::{json, Value};
use std::collections::{BTreeMap, HashSet};
use std::sync::atomic::{AtomicBool, AtomicU64, Ordering};
use std::sync::Mutex;

/// Wall-clock watchdog: turns a case that never returns (an engine without logical hang detection met
/// code that waits forever) into exit 2 "inconclusive" - never into a violation.
pub mod watchdog {
    use super::Case;
    use std::sync::atomic::{AtomicPtr, AtomicU64, Ordering};

    pub static PROGRESS: AtomicU64 = AtomicU64::new(0);
    const N: usize = 128;
    #[allow(clippy::declare_interior_mutable_const)]
    const NULL: AtomicPtr<Case> = AtomicPtr::new(std::ptr::null_mut());
    pub static SLOTS: [AtomicPtr<Case>; N] = [NULL; N];

    pub struct Running(usize);

    pub fn enter(slot: usize, case: &Case) -> Running {
        SLOTS[slot % N].store(case as *const Case as *mut Case, Ordering::SeqCst);
        Running(slot % N)
    }

    impl Drop for Running {
        fn drop(&mut self) {
            SLOTS[self.0].store(std::ptr::null_mut(), Ordering::SeqCst);
            PROGRESS.fetch_add(1, Ordering::Relaxed);
        }
    }

    pub fn start(prop: String) {
        let limit: u64 = std::env::var("VERIF_WATCHDOG_S").ok().and_then(|x| x.parse().ok()).unwrap_or(120);
        std::thread::spawn(move || {
            let mut last = PROGRESS.load(Ordering::Relaxed);
            let mut last_ptrs: Vec<usize> = vec![0; N];
            let mut stale_for = 0u64;
            loop {
                std::thread::sleep(std::time::Duration::from_secs(5));
                let now = PROGRESS.load(Ordering::Relaxed);
                let ptrs: Vec<usize> = SLOTS.iter().map(|s| s.load(Ordering::SeqCst) as usize).collect();
                let any_running = ptrs.iter().any(|p| *p != 0);
                if now != last || !any_running {
                    last = now;
                    last_ptrs = ptrs;
                    stale_for = 0;
                    continue;
                }
                stale_for += 5;
                if stale_for < limit {
                    continue;
                }
                // the same cases have been running for the whole period without any case finishing
                let mut msg = String::new();
                for (i, p) in ptrs.iter().enumerate() {
                    if *p != 0 && *p == last_ptrs[i] {
                        // SAFETY: the worker is still inside the evaluation of this very case
                        let case: &Case = unsafe { &*(*p as *const Case) };
                        let dir = crate::known::verif_root().join("replays").join(&prop);
                        let _ = std::fs::create_dir_all(&dir);
                        let path = dir.join(format!("hung-{:016x}.json", case.hash64()));
                        let _ = std::fs::write(&path, case.to_text());
                        msg = format!("{} replay={}", case.to_line(), path.display());
                        break;
                    }
                }
                println!(
                    "INCONCLUSIVE: no case finished within {} s of wall-clock time; a case of property {} does not return in an engine without logical hang detection: {}",
                    limit, prop, msg
                );
                std::process::exit(2);
            }
        });
    }
}

/// Result of executing one case under one property's oracle.
pub struct Outcome {
    pub verdict: Result<(), Violation>,
    /// signature suffix of a violation (source-kind class / operation class)
    pub sig_ctx: String,
    pub nontrivial: bool,
    pub classes: Vec<&'static str>,
    /// the engine could not decide this case (step bound, unmodelled primitive): counted, never a violation
    pub inconclusive: bool,
    /// number of engine executions behind this outcome (schedule enumeration runs many)
    pub evals: u64,
    /// schedule enumeration: Some(true) = all schedules within the preemption bound were run
    pub dfs: Option<bool>,
    /// the concrete failing case when it differs from the generated one (e.g. the failing schedule)
    pub witness: Option<Case>,
}

impl Outcome {
    pub fn ok(nontrivial: bool, classes: Vec<&'static str>) -> Outcome {
        Outcome {
            verdict: Ok(()),
            sig_ctx: String::new(),
            nontrivial,
            classes,
            inconclusive: false,
            evals: 1,
            dfs: None,
            witness: None,
        }
    }
}

pub struct Campaign<'a> {
    pub name: String,
    pub cases: u64,
    pub make_strategy: &'a (dyn Fn() -> BoxedStrategy<Case> + Sync),
    pub run: &'a (dyn Fn(&Case) -> Outcome + Sync),
    pub rule: String,
}

#[derive(Default)]
pub struct Tally {
    pub evaluations: u64,
    pub nontrivial_hashes: HashSet<u64>,
    pub classes: BTreeMap<String, u64>,
    pub samples: Vec<Value>,
    pub inconclusive: u64,
    pub excluded_known: BTreeMap<String, u64>,
    pub campaigns: Vec<Value>,
    pub exhaustive: Option<bool>,
    pub extra: BTreeMap<String, Value>,
}

pub struct Failure {
    pub case: Case,
    pub violation: Violation,
    pub sig: String,
    pub campaign: String,
}

/// A violation that is not a `Case` (generated client program).
pub struct ProgFailure {
    pub sig: String,
    pub detail: String,
    pub replay: std::path::PathBuf,
}

pub struct Ctx {
    pub prog_failure: Option<ProgFailure>,
    /// harness trouble that makes the run inconclusive (exit 2)
    pub trouble: Vec<String>,
    pub prop: String,
    pub tier: String,
    pub seed: u64,
    pub workers: usize,
    /// signatures of open known findings of this property: (sig, description)
    pub open: Vec<(String, String)>,
    pub tally: Tally,
    pub failure: Option<Failure>,
    pub known_hit: BTreeMap<String, String>,
    pub start: std::time::Instant,
}

pub fn signature(prop: &str, v: &Violation, ctx: &str) -> String {
    if ctx.is_empty() {
        format!("{}/{}", prop, v.what)
    } else {
        format!("{}/{}/{}", prop, v.what, ctx)
    }
}

impl Ctx {
    pub fn new(prop: &str, tier: &str, seed: u64) -> Ctx {
        let workers = std::env::var("VERIF_WORKERS")
            .ok()
            .and_then(|x| x.parse().ok())
            .unwrap_or_else(|| std::thread::available_parallelism().map(|n| n.get()).unwrap_or(4));
        Ctx {
            prop: prop.to_string(),
            tier: tier.to_string(),
            seed,
            workers,
            open: crate::known::open_findings(prop),
            tally: Tally::default(),
            failure: None,
            prog_failure: None,
            trouble: vec![],
            known_hit: BTreeMap::new(),
            start: std::time::Instant::now(),
        }
    }

    pub fn failed(&self) -> bool {
        self.failure.is_some() || self.prog_failure.is_some()
    }

    /// Runs one campaign on all workers. Stops early (all workers) at the first unknown violation.
    pub fn run_campaign(&mut self, c: &Campaign) {
        if self.failed() {
            return;
        }
        let t0 = std::time::Instant::now();
        let workers = self.workers.max(1);
        let per = (c.cases + workers as u64 - 1) / workers as u64;
        let stop = AtomicBool::new(false);
        let evals = AtomicU64::new(0);
        let inconcl = AtomicU64::new(0);
        let dfs_programs = AtomicU64::new(0);
        let dfs_complete = AtomicU64::new(0);
        let shared: Mutex<(HashSet<u64>, BTreeMap<String, u64>, Vec<Value>, BTreeMap<String, u64>, BTreeMap<String, String>)> =
            Mutex::new(Default::default());
        let fail: Mutex<Option<Failure>> = Mutex::new(None);
        let open: Vec<String> = self.open.iter().map(|x| x.0.clone()).collect();
        // isolation mode: cases run in child processes; schedule enumeration and twin campaigns are skipped
        let isolate_campaign = crate::twin::isolate_enabled();
        if isolate_campaign && (c.name.contains("dfs") || c.name.contains("twins") || c.name.contains("real")) {
            return;
        }
        let prop = self.prop.clone();
        let seed = self.seed;
        std::thread::scope(|s| {
            for w in 0..workers {
                let (stop, evals, inconcl, shared, fail, open, prop) = (&stop, &evals, &inconcl, &shared, &fail, &open, &prop);
                let (dfs_programs, dfs_complete) = (&dfs_programs, &dfs_complete);
                let cname = c.name.clone();
                s.spawn(move || {
                    let mut seed_bytes = [0u8; 32];
                    let s0 = crate::case::mix(seed, w as u64 + 1) ^ crate::case::fnv1a(cname.as_bytes());
                    for (i, chunk) in seed_bytes.chunks_mut(8).enumerate() {
                        chunk.copy_from_slice(&crate::case::mix(s0, i as u64).to_le_bytes());
                    }
                    let cfg = Config {
                        cases: per as u32,
                        failure_persistence: None,
                        max_shrink_iters: 4000,
                        max_global_rejects: 1,
                        rng_algorithm: RngAlgorithm::ChaCha,
                        rng_seed: RngSeed::Fixed(s0),
                        ..Config::default()
                    };
                    let _ = seed_bytes;
                    let mut runner = TestRunner::new(cfg);
                    let isolate = isolate_campaign;
                    let engine: &str = cname.split('-').next().unwrap_or("seq");
                    let strategy = (c.make_strategy)();
                    let local_hashes: std::cell::RefCell<HashSet<u64>> = Default::default();
                    let local_classes: std::cell::RefCell<BTreeMap<String, u64>> = Default::default();
                    let local_samples: std::cell::RefCell<Vec<Value>> = Default::default();
                    let local_excl: std::cell::RefCell<BTreeMap<String, u64>> = Default::default();
                    let local_known: std::cell::RefCell<BTreeMap<String, String>> = Default::default();
                    let failing = std::cell::Cell::new(false);
                    let last_violation: std::cell::RefCell<Option<(Violation, String)>> = std::cell::RefCell::new(None);
                    let res = runner.run(&strategy, |case| {
                        if stop.load(Ordering::Relaxed) && !failing.get() {
                            // another worker found a violation: finish quickly
                            return Ok(());
                        }
                        let out = {
                            let _running = watchdog::enter(w, &case);
                            if isolate {
                                crate::twin::judge_isolated(prop, engine, &case)
                            } else {
                                (c.run)(&case)
                            }
                        };
                        if !failing.get() {
                            evals.fetch_add(out.evals.max(1), Ordering::Relaxed);
                            if let Some(complete) = out.dfs {
                                dfs_programs.fetch_add(1, Ordering::Relaxed);
                                if complete {
                                    dfs_complete.fetch_add(1, Ordering::Relaxed);
                                }
                            }
                            if out.inconclusive {
                                inconcl.fetch_add(1, Ordering::Relaxed);
                            }
                            for cl in &out.classes {
                                *local_classes.borrow_mut().entry(cl.to_string()).or_insert(0) += 1;
                            }
                            if out.nontrivial && out.verdict.is_ok() {
                                let h = case.hash64();
                                if local_hashes.borrow_mut().insert(h) && local_samples.borrow().len() < 2 {
                                    local_samples.borrow_mut().push(case.to_json());
                                }
                            }
                        }
                        match out.verdict {
                            Ok(()) => Ok(()),
                            Err(v) => {
                                let sig = signature(prop, &v, &out.sig_ctx);
                                if open.iter().any(|o| *o == sig) {
                                    if !failing.get() {
                                        *local_excl.borrow_mut().entry(sig.clone()).or_insert(0) += 1;
                                        local_known.borrow_mut().entry(sig).or_insert_with(|| v.detail.clone());
                                    }
                                    return Ok(());
                                }
                                failing.set(true);
                                stop.store(true, Ordering::Relaxed);
                                let msg = format!("{}: {}", sig, v.detail);
                                *last_violation.borrow_mut() = Some((v, sig));
                                Err(TestCaseError::fail(msg))
                            }
                        }
                    });
                    {
                        let mut g = shared.lock().expect("lock");
                        g.0.extend(local_hashes.into_inner());
                        for (k, v) in local_classes.into_inner() {
                            *g.1.entry(k).or_insert(0) += v;
                        }
                        if g.2.len() < 4 {
                            g.2.extend(local_samples.into_inner());
                        }
                        for (k, v) in local_excl.into_inner() {
                            *g.3.entry(k).or_insert(0) += v;
                        }
                        for (k, v) in local_known.into_inner() {
                            g.4.entry(k).or_insert(v);
                        }
                    }
                    if let Err(TestError::Fail(_, case)) = res {
                        // re-run the minimal case to get its own violation text
                        let out = if isolate { crate::twin::judge_isolated(prop, engine, &case) } else { (c.run)(&case) };
                        let case = out.witness.clone().unwrap_or(case);
                        let (v, sig) = match out.verdict {
                            Err(v) => {
                                let sig = signature(prop, &v, &out.sig_ctx);
                                (v, sig)
                            }
                            Ok(()) => last_violation.borrow_mut().take().expect("violation recorded"),
                        };
                        let mut f = fail.lock().expect("lock");
                        if f.is_none() {
                            *f = Some(Failure {
                                case,
                                violation: v,
                                sig,
                                campaign: cname.clone(),
                            });
                        }
                    } else if let Err(TestError::Abort(r)) = res {
                        eprintln!("campaign {} worker {}: generator aborted: {}", cname, w, r);
                    }
                });
            }
        });
        let (hashes, classes, samples, excl, known) = shared.into_inner().expect("lock");
        let n_eval = evals.load(Ordering::Relaxed);
        self.tally.evaluations += n_eval;
        self.tally.inconclusive += inconcl.load(Ordering::Relaxed);
        let nt = hashes.len();
        self.tally.nontrivial_hashes.extend(hashes);
        for (k, v) in classes {
            *self.tally.classes.entry(format!("{}:{}", c.name, k)).or_insert(0) += v;
        }
        for s in samples {
            if self.tally.samples.len() < 6 {
                self.tally.samples.push(s);
            }
        }
        for (k, v) in excl {
            *self.tally.excluded_known.entry(k).or_insert(0) += v;
        }
        for (k, v) in known {
            self.known_hit.entry(k).or_insert(v);
        }
        let mut cj = json!({
            "name": c.name, "engine_cases": n_eval, "distinct_nontrivial": nt,
            "wall_s": t0.elapsed().as_secs_f64(),
        });
        let dp = dfs_programs.load(Ordering::Relaxed);
        if dp > 0 {
            cj["schedule_enumeration"] = json!({
                "programs": dp,
                "programs_fully_enumerated": dfs_complete.load(Ordering::Relaxed),
                "schedules_run": n_eval,
                "bound": if std::env::var("VERIF_DFS_DEEP").is_ok() { "all schedules with at most 3 preemptions (a switch away from a thread that could continue); at most 20000 schedules per program" } else { "all schedules with at most 2 preemptions (a switch away from a thread that could continue); at most 4000 schedules per program" },
                "exhaustive": dp == dfs_complete.load(Ordering::Relaxed),
            });
        }
        self.tally.campaigns.push(cj);
        if let Some(f) = fail.into_inner().expect("lock") {
            self.failure = Some(f);
        }
    }

    /// Evaluates an explicitly enumerated list of cases on all workers (no generator involved).
    pub fn run_enumeration(&mut self, name: &str, cases: &[Case], eval: &(dyn Fn(&Case) -> Outcome + Sync), exhaustive_of: &str) {
        if self.failed() {
            return;
        }
        let t0 = std::time::Instant::now();
        let workers = self.workers.max(1);
        let stop = AtomicBool::new(false);
        let results: Mutex<Vec<(usize, Outcome)>> = Mutex::new(Vec::new());
        std::thread::scope(|s| {
            for w in 0..workers {
                let (stop, results) = (&stop, &results);
                s.spawn(move || {
                    let mut local = vec![];
                    let mut i = w;
                    while i < cases.len() {
                        if stop.load(Ordering::Relaxed) {
                            break;
                        }
                        let o = {
                            let _running = watchdog::enter(w, &cases[i]);
                            eval(&cases[i])
                        };
                        if o.verdict.is_err() {
                            // keep going only for known findings; an unknown one stops everybody soon enough
                            local.push((i, o));
                            if local.iter().filter(|x| x.1.verdict.is_err()).count() > 200 {
                                stop.store(true, Ordering::Relaxed);
                            }
                        } else {
                            local.push((i, o));
                        }
                        i += workers;
                    }
                    results.lock().expect("lock").extend(local);
                });
            }
        });
        let mut results = results.into_inner().expect("lock");
        results.sort_by_key(|x| x.0);
        let before_nt = self.tally.nontrivial_hashes.len();
        let n = results.len();
        let complete = n == cases.len();
        for (i, o) in results {
            self.record_direct(name, &cases[i], o);
        }
        self.tally.campaigns.push(json!({
            "name": name, "engine_cases": n, "enumerated_space": cases.len(),
            "distinct_nontrivial": self.tally.nontrivial_hashes.len() - before_nt,
            "exhaustive": complete && self.failure.is_none(), "space": exhaustive_of,
            "wall_s": t0.elapsed().as_secs_f64(),
        }));
    }

    /// Records a directly executed (non-proptest) case: replays, enumerations.
    pub fn record_direct(&mut self, campaign: &str, case: &Case, out: Outcome) {
        self.tally.evaluations += out.evals.max(1);
        if out.inconclusive {
            self.tally.inconclusive += 1;
        }
        for cl in &out.classes {
            *self.tally.classes.entry(format!("{}:{}", campaign, cl)).or_insert(0) += 1;
        }
        match out.verdict {
            Ok(()) => {
                if out.nontrivial {
                    let h = case.hash64();
                    if self.tally.nontrivial_hashes.insert(h) && self.tally.samples.len() < 6 {
                        self.tally.samples.push(case.to_json());
                    }
                }
            }
            Err(v) => {
                let sig = signature(&self.prop, &v, &out.sig_ctx);
                if self.open.iter().any(|o| o.0 == sig) {
                    *self.tally.excluded_known.entry(sig.clone()).or_insert(0) += 1;
                    self.known_hit.entry(sig).or_insert(v.detail);
                } else if self.failure.is_none() {
                    self.failure = Some(Failure {
                        case: case.clone(),
                        violation: v,
                        sig,
                        campaign: campaign.to_string(),
                    });
                }
            }
        }
    }
}
