//! Element types with observable identity, destructor and clone accounting (engine E3 "ledger").

use std::cell::Cell;
use std::sync::atomic::{AtomicU32, AtomicU64, Ordering::Relaxed};

pub const MAX_ELEMS: usize = 9300;

/// Per-worker ledger. Atomics only so that elements are `Send + Sync` and real threads may be used.
pub struct Ledger {
    /// drops of original element `id`
    pub drops: Vec<AtomicU32>,
    /// clones made of original element `id`
    pub clones: Vec<AtomicU32>,
    /// drops of clones whose origin is `id`
    pub clone_drops: Vec<AtomicU32>,
    /// drops of zero-sized elements (they cannot carry an id)
    pub zst_drops: AtomicU64,
    /// an element with an id outside the table was dropped (memory corruption symptom)
    pub wild: AtomicU32,
}

impl Ledger {
    pub fn new_leaked() -> &'static Ledger {
        let mk = || (0..MAX_ELEMS).map(|_| AtomicU32::new(0)).collect::<Vec<_>>();
        Box::leak(Box::new(Ledger {
            drops: mk(),
            clones: mk(),
            clone_drops: mk(),
            zst_drops: AtomicU64::new(0),
            wild: AtomicU32::new(0),
        }))
    }
    pub fn reset(&self, n: usize) {
        let n = n.min(MAX_ELEMS);
        for i in 0..n {
            self.drops[i].store(0, Relaxed);
            self.clones[i].store(0, Relaxed);
            self.clone_drops[i].store(0, Relaxed);
        }
        self.zst_drops.store(0, Relaxed);
        self.wild.store(0, Relaxed);
    }
    pub fn drops_of(&self, id: u32) -> u32 {
        self.drops[id as usize].load(Relaxed)
    }
    pub fn clones_of(&self, id: u32) -> u32 {
        self.clones[id as usize].load(Relaxed)
    }
    pub fn clone_drops_of(&self, id: u32) -> u32 {
        self.clone_drops[id as usize].load(Relaxed)
    }
}

thread_local! {
    static LEDGER: Cell<Option<&'static Ledger>> = const { Cell::new(None) };
    /// hook invoked at the start of every `Tracked::clone` (E1: yield point + fault injection)
    static CLONE_HOOK: Cell<Option<*const dyn Fn()>> = const { Cell::new(None) };
    /// hook invoked at the end of every `Tracked::drop` (E1: fault injection)
    static DROP_HOOK: Cell<Option<*const dyn Fn()>> = const { Cell::new(None) };
}

/// The ledger of the current OS thread (created on first use, then reused for every case).
pub fn thread_ledger() -> &'static Ledger {
    LEDGER.with(|c| match c.get() {
        Some(l) => l,
        None => {
            let l = Ledger::new_leaked();
            c.set(Some(l));
            l
        }
    })
}

pub fn with_clone_hook<R>(hook: &dyn Fn(), f: impl FnOnce() -> R) -> R {
    struct Reset(Option<*const dyn Fn()>);
    impl Drop for Reset {
        fn drop(&mut self) {
            CLONE_HOOK.with(|c| c.set(self.0));
        }
    }
    let p: *const dyn Fn() = unsafe { std::mem::transmute::<&dyn Fn(), &'static dyn Fn()>(hook) };
    let _r = Reset(CLONE_HOOK.with(|c| c.replace(Some(p))));
    f()
}

pub fn with_drop_hook<R>(hook: &dyn Fn(), f: impl FnOnce() -> R) -> R {
    struct Reset(Option<*const dyn Fn()>);
    impl Drop for Reset {
        fn drop(&mut self) {
            DROP_HOOK.with(|c| c.set(self.0));
        }
    }
    let p: *const dyn Fn() = unsafe { std::mem::transmute::<&dyn Fn(), &'static dyn Fn()>(hook) };
    let _r = Reset(DROP_HOOK.with(|c| c.replace(Some(p))));
    f()
}

fn drop_hook() {
    if let Some(p) = DROP_HOOK.with(|c| c.get()) {
        unsafe { (*p)() }
    }
}

fn clone_hook() {
    if let Some(p) = CLONE_HOOK.with(|c| c.get()) {
        unsafe { (*p)() }
    }
}

/// What the harness records about one delivered item.
#[derive(Clone, Copy, Debug, PartialEq, Eq, Hash)]
pub struct ItemRec {
    pub val: u64,
    /// identity of the (origin) element; `u32::MAX` when the item type carries none
    pub id: u32,
    /// address of the referenced element for reference items, 0 otherwise
    pub addr: usize,
    pub is_clone: bool,
}

pub trait Elem: Send + Sync {
    fn rec(&self) -> ItemRec;
}

// ------------------------------------------------------------------------------------------------

/// Element with a counted destructor and a counted `Clone`; no heap inside, so that a double drop
/// is *counted* instead of crashing.
pub struct Tracked {
    pub id: u32,
    pub val: u64,
    pub is_clone: bool,
    led: &'static Ledger,
}

impl Tracked {
    pub fn new(id: u32, val: u64, led: &'static Ledger) -> Self {
        Tracked {
            id,
            val,
            is_clone: false,
            led,
        }
    }
}

impl std::fmt::Debug for Tracked {
    fn fmt(&self, f: &mut std::fmt::Formatter<'_>) -> std::fmt::Result {
        write!(f, "T{}:{:x}{}", self.id, self.val, if self.is_clone { "c" } else { "" })
    }
}

impl Drop for Tracked {
    fn drop(&mut self) {
        let i = self.id as usize;
        if i >= MAX_ELEMS {
            self.led.wild.fetch_add(1, Relaxed);
        } else if self.is_clone {
            self.led.clone_drops[i].fetch_add(1, Relaxed);
        } else {
            self.led.drops[i].fetch_add(1, Relaxed);
        }
        // the destructor has done its work (the ledger counts it); it may now panic like a user destructor can
        drop_hook();
    }
}

impl Clone for Tracked {
    fn clone(&self) -> Self {
        clone_hook();
        let i = self.id as usize;
        if i < MAX_ELEMS {
            self.led.clones[i].fetch_add(1, Relaxed);
        }
        Tracked {
            id: self.id,
            val: self.val,
            is_clone: true,
            led: self.led,
        }
    }
}

impl Elem for Tracked {
    fn rec(&self) -> ItemRec {
        ItemRec {
            val: self.val,
            id: self.id,
            addr: 0,
            is_clone: self.is_clone,
        }
    }
}

impl Elem for &Tracked {
    fn rec(&self) -> ItemRec {
        ItemRec {
            val: self.val,
            id: self.id,
            addr: *self as *const Tracked as usize,
            is_clone: self.is_clone,
        }
    }
}

// ------------------------------------------------------------------------------------------------

/// `Copy` element for the `copied()` adaptor.
#[derive(Clone, Copy, Debug, PartialEq, Eq)]
pub struct CopyEl {
    pub id: u32,
    pub val: u64,
}

impl Elem for CopyEl {
    fn rec(&self) -> ItemRec {
        ItemRec {
            val: self.val,
            id: self.id,
            addr: 0,
            is_clone: true,
        }
    }
}

impl Elem for &CopyEl {
    fn rec(&self) -> ItemRec {
        ItemRec {
            val: self.val,
            id: self.id,
            addr: *self as *const CopyEl as usize,
            is_clone: false,
        }
    }
}

impl Elem for usize {
    fn rec(&self) -> ItemRec {
        ItemRec {
            val: *self as u64,
            id: u32::MAX,
            addr: 0,
            is_clone: false,
        }
    }
}

// ------------------------------------------------------------------------------------------------

/// Element owning a heap block (allocation accounting, sanitizers).
pub struct Boxed {
    pub t: Tracked,
    pub b: Box<[u64; 3]>,
}

impl Boxed {
    pub fn new(id: u32, val: u64, led: &'static Ledger) -> Self {
        Boxed {
            t: Tracked::new(id, val, led),
            b: Box::new([val, !val, id as u64]),
        }
    }
}

impl Elem for Boxed {
    fn rec(&self) -> ItemRec {
        // reading through the box makes a use-after-free visible to sanitizers and to the value oracle
        let ok = self.b[0] == self.t.val && self.b[1] == !self.t.val && self.b[2] == self.t.id as u64;
        ItemRec {
            val: if ok { self.t.val } else { !self.t.val },
            id: self.t.id,
            addr: 0,
            is_clone: false,
        }
    }
}

/// `String` payload element; identity is encoded in the text.
pub struct StrEl {
    pub t: Tracked,
    pub s: String,
}

impl StrEl {
    pub fn new(id: u32, val: u64, led: &'static Ledger) -> Self {
        StrEl {
            t: Tracked::new(id, val, led),
            s: format!("{:016x}-{}", val, id),
        }
    }
}

impl Elem for StrEl {
    fn rec(&self) -> ItemRec {
        let ok = self.s == format!("{:016x}-{}", self.t.val, self.t.id);
        ItemRec {
            val: if ok { self.t.val } else { !self.t.val },
            id: self.t.id,
            addr: 0,
            is_clone: false,
        }
    }
}

/// Zero-sized element with a counted destructor.
pub struct Zst;

impl Drop for Zst {
    fn drop(&mut self) {
        thread_ledger().zst_drops.fetch_add(1, Relaxed);
    }
}

impl Elem for Zst {
    fn rec(&self) -> ItemRec {
        ItemRec {
            val: 0,
            id: u32::MAX,
            addr: 0,
            is_clone: false,
        }
    }
}
