//! Evidence writer (`/verif/evidence/<id>.json`, schema /root/.vp/EVIDENCE.schema.json) and the
//! final verdict lines of a check.

use crate::driver::Ctx;
use crate::known::verif_root;
use serde_json::{json, Value};

pub struct Meta {
    pub level: &'static str,
    pub rule: String,
    pub assumptions: Vec<String>,
}

/// Writes the evidence file, the replay file of a violation, prints the verdict lines and returns the exit code.
pub fn finish(ctx: &mut Ctx, meta: Meta) -> i32 {
    let root = verif_root();
    #[allow(unused_assignments)]
    let mut violations = 0;
    let mut replay_path = None;
    if let Some(f) = &ctx.failure {
        violations = 1;
        let dir = root.join("replays").join(&ctx.prop);
        let _ = std::fs::create_dir_all(&dir);
        let path = dir.join(format!("found-{:016x}.json", f.case.hash64()));
        let mut v = f.case.to_json();
        if let Some(m) = v.as_object_mut() {
            m.insert("property".into(), json!(ctx.prop));
            m.insert("campaign".into(), json!(f.campaign));
            let engine = f.campaign.split('-').next().unwrap_or("seq");
            m.insert("engine".into(), json!(engine));
            m.insert("signature".into(), json!(f.sig));
            m.insert("violation".into(), json!(f.violation.detail));
        }
        let _ = std::fs::write(&path, serde_json::to_string_pretty(&v).expect("json"));
        replay_path = Some(path);
    }
    let mut coverage = json!({
        "evaluations": ctx.tally.evaluations,
        "distinct_nontrivial": ctx.tally.nontrivial_hashes.len(),
        "rule": meta.rule,
        "samples": ctx.tally.samples,
        "classes": ctx.tally.classes,
        "inconclusive": ctx.tally.inconclusive,
        "excluded_known": ctx.tally.excluded_known,
        "campaigns": ctx.tally.campaigns,
        "workers": ctx.workers,
    });
    if let Some(e) = ctx.tally.exhaustive {
        coverage["exhaustive"] = json!(e);
    }
    for (k, v) in &ctx.tally.extra {
        coverage[k] = v.clone();
    }
    if let Some(pf) = &ctx.prog_failure {
        violations = 1;
        coverage["violation"] = json!({"signature": pf.sig, "detail": pf.detail, "program": pf.replay.display().to_string()});
    }
    if let Some(f) = &ctx.failure {
        coverage["violation"] = json!({"signature": f.sig, "detail": f.violation.detail, "case": f.case.to_json()});
    }
    // a property served by two binaries (guard off + guard on): the second run merges into the first one's file
    let dir = root.join("evidence");
    let path = dir.join(format!("{}.json", ctx.prop));
    let mut wall = ctx.start.elapsed().as_secs_f64();
    if std::env::var("VERIF_MERGE").ok().as_deref() == Some("1") {
        if let Ok(text) = std::fs::read_to_string(&path) {
            if let Ok(prev) = serde_json::from_str::<Value>(&text) {
                if prev["property_id"] == json!(ctx.prop) && prev["tier"] == json!(ctx.tier) {
                    let pc = &prev["coverage"];
                    let add = |a: &Value, b: &Value| json!(a.as_u64().unwrap_or(0) + b.as_u64().unwrap_or(0));
                    coverage["evaluations"] = add(&coverage["evaluations"], &pc["evaluations"]);
                    coverage["distinct_nontrivial"] = add(&coverage["distinct_nontrivial"], &pc["distinct_nontrivial"]);
                    coverage["inconclusive"] = add(&coverage["inconclusive"], &pc["inconclusive"]);
                    for key in ["classes", "excluded_known"] {
                        if let Some(m) = pc[key].as_object() {
                            for (k, v) in m {
                                let cur = coverage[key][k].as_u64().unwrap_or(0);
                                coverage[key][k] = json!(cur + v.as_u64().unwrap_or(0));
                            }
                        }
                    }
                    for key in ["campaigns", "samples"] {
                        let mut merged: Vec<Value> = pc[key].as_array().cloned().unwrap_or_default();
                        merged.extend(coverage[key].as_array().cloned().unwrap_or_default());
                        if key == "samples" {
                            merged.truncate(8);
                        }
                        coverage[key] = json!(merged);
                    }
                    coverage["merged_from"] = json!("guard-off engines (first binary) + schedule engine (second binary)");
                    wall += prev["wall_s"].as_f64().unwrap_or(0.0);
                }
            }
        }
    }
    let ev: Value = json!({
        "property_id": ctx.prop,
        "tier": ctx.tier,
        "seed": ctx.seed,
        "level": meta.level,
        "coverage": coverage,
        "assumptions": meta.assumptions,
        "wall_s": wall,
        "violations": violations,
    });
    let _ = std::fs::create_dir_all(&dir);
    if let Err(e) = std::fs::write(&path, serde_json::to_string_pretty(&ev).expect("json")) {
        eprintln!("cannot write evidence {}: {}", path.display(), e);
        return 2;
    }
    for (sig, detail) in &ctx.known_hit {
        let desc = ctx
            .open
            .iter()
            .find(|o| &o.0 == sig)
            .map(|o| o.1.clone())
            .unwrap_or_default();
        println!("KNOWN-FINDING: property={} sig={} {} [{}]", ctx.prop, sig, desc, detail);
    }
    println!(
        "{} {}: {} cases, {} distinct non-trivial, {} inconclusive, {:.1}s",
        ctx.prop,
        ctx.tier,
        ctx.tally.evaluations,
        ctx.tally.nontrivial_hashes.len(),
        ctx.tally.inconclusive,
        ctx.start.elapsed().as_secs_f64()
    );
    if let Some(pf) = &ctx.prog_failure {
        println!("violation [{}]: {}", pf.sig, pf.detail);
        println!("VIOLATION property={} replay={}", ctx.prop, pf.replay.display());
        return 1;
    }
    if ctx.failure.is_none() && !ctx.trouble.is_empty() {
        for t in &ctx.trouble {
            println!("INCONCLUSIVE: {}", t);
        }
        return 2;
    }
    if ctx.failure.is_none() && ctx.tally.evaluations > 0 && ctx.tally.inconclusive * 2 > ctx.tally.evaluations {
        println!("INCONCLUSIVE: {} of {} cases could not be decided by the engine", ctx.tally.inconclusive, ctx.tally.evaluations);
        return 2;
    }
    if let (Some(f), Some(p)) = (&ctx.failure, replay_path) {
        println!("violation [{}] in campaign {}: {}", f.sig, f.campaign, f.violation.detail);
        println!("minimal case: {}", f.case.to_line());
        println!("VIOLATION property={} replay={}", ctx.prop, p.display());
        return 1;
    }
    0
}

/// Adds the counters of a libFuzzer stage (read from `<workdir>/out-*/fuzz-stats.json`) to the evidence file.
pub fn fuzz_merge(prop: &str, workdir: &str, target: &str) -> i32 {
    let path = verif_root().join("evidence").join(format!("{}.json", prop));
    let Ok(text) = std::fs::read_to_string(&path) else { return 2 };
    let Ok(mut ev) = serde_json::from_str::<Value>(&text) else { return 2 };
    let (mut runs, mut decoded, mut nt, mut dnt, mut inst) = (0u64, 0u64, 0u64, 0u64, 0u64);
    let mut samples = vec![];
    if let Ok(rd) = std::fs::read_dir(workdir) {
        for e in rd.flatten() {
            let f = e.path().join("fuzz-stats.json");
            if let Ok(t) = std::fs::read_to_string(&f) {
                if let Ok(v) = serde_json::from_str::<Value>(&t) {
                    inst += 1;
                    runs += v["runs"].as_u64().unwrap_or(0);
                    decoded += v["decoded"].as_u64().unwrap_or(0);
                    nt += v["nontrivial"].as_u64().unwrap_or(0);
                    dnt += v["distinct_nontrivial"].as_u64().unwrap_or(0);
                    if let Some(s) = v["sample"].as_str() {
                        if samples.len() < 2 {
                            samples.push(serde_json::from_str::<Value>(s).unwrap_or(json!(s)));
                        }
                    }
                }
            }
        }
    }
    let c = &mut ev["coverage"];
    c["evaluations"] = json!(c["evaluations"].as_u64().unwrap_or(0) + decoded);
    c["distinct_nontrivial"] = json!(c["distinct_nontrivial"].as_u64().unwrap_or(0) + dnt);
    let mut camps = c["campaigns"].as_array().cloned().unwrap_or_default();
    camps.push(json!({
        "name": format!("{} (libFuzzer, coverage-guided{})", target, if target == "fuzz_seq" { ", AddressSanitizer + LeakSanitizer" } else { ", schedule bytes fuzzed" }),
        "instances": inst, "runs": runs, "engine_cases": decoded, "nontrivial": nt,
        "distinct_nontrivial": dnt,
        "note": "distinct = distinct case hashes per instance (instances use different seeds; overlaps between instances are not removed)",
    }));
    c["campaigns"] = json!(camps);
    let mut ss = c["samples"].as_array().cloned().unwrap_or_default();
    ss.extend(samples);
    c["samples"] = json!(ss);
    match std::fs::write(&path, serde_json::to_string_pretty(&ev).unwrap_or_default()) {
        Ok(()) => 0,
        Err(_) => 2,
    }
}
