//! Byte-level decoder for the libFuzzer targets (engine E6): bytes -> `Case`, by hand over
//! `arbitrary::Unstructured`-style consumption (a tiny cursor; no derive available offline).
//! Boundary constants are reachable from single bytes so that coverage guidance can find them.

use crate::case::*;

pub struct Cursor<'a> {
    data: &'a [u8],
    pos: usize,
}

impl<'a> Cursor<'a> {
    pub fn new(data: &'a [u8]) -> Self {
        Cursor { data, pos: 0 }
    }
    pub fn u8(&mut self) -> u8 {
        let b = self.data.get(self.pos).copied().unwrap_or(0);
        self.pos += 1;
        b
    }
    pub fn done(&self) -> bool {
        self.pos >= self.data.len()
    }
    pub fn below(&mut self, n: usize) -> usize {
        if n == 0 {
            0
        } else {
            self.u8() as usize % n
        }
    }
}

fn size(c: &mut Cursor, len: usize, boundary: bool) -> usize {
    let b = c.u8();
    if boundary && b >= 0xE0 {
        // extreme sizes from single bytes
        const M: usize = usize::MAX;
        const H: usize = usize::MAX / 2;
        return match b {
            0xE0 => 0,
            0xE1 => H,
            0xE2 => H + 1,
            0xE3 => M - 2,
            0xE4 => M - 1,
            _ => M,
        };
    }
    1 + (b as usize % (len + 3))
}

fn take(c: &mut Cursor, n: usize) -> usize {
    let b = c.u8();
    if b & 1 == 1 {
        // bits 1..3: how everything is consumed (next / fold / for_each / collect), plain for most bytes
        usize::MAX - if b & 0x80 != 0 { (b as usize >> 1) & 3 } else { 0 }
    } else {
        (b as usize >> 1) % n.max(1).min(64)
    }
}

/// `take` of a chunk pull: prefix by `next()`, then one of the uses of the rest (see `interp::decode_take`)
fn chunk_take(c: &mut Cursor, n: usize) -> usize {
    let t = take(c, n);
    if t >= usize::MAX - 3 {
        return t;
    }
    let m = c.u8();
    crate::interp::encode_take(t, if m & 1 == 1 { (m >> 1) & 7 } else { 0 })
}

fn how(c: &mut Cursor, len: usize, composite: bool) -> How {
    let n = size(c, len, false);
    match c.below(if composite { 9 } else { 6 }) {
        0 => How::Next,
        1 => How::NextIdVal,
        2 => How::Chunk(n),
        3 => How::Buf(n),
        4 => How::Values,
        5 => How::IdsValues,
        6 => How::ForEach(n),
        7 => How::EnumForEach(n),
        _ => How::Fold(n),
    }
}

pub struct DecCfg {
    pub kinds: &'static [Kind],
    pub max_len: usize,
    pub max_threads: usize,
    pub sched: bool,
    pub boundary_sizes: bool,
    pub skip: bool,
    pub queries: bool,
    pub composite: bool,
    pub layouts: &'static [Layout],
}

pub fn decode(data: &[u8], cfg: &DecCfg) -> Option<Case> {
    if data.len() < 4 {
        return None;
    }
    let mut c = Cursor::new(data);
    let kind = cfg.kinds[c.below(cfg.kinds.len())];
    let mut len = c.below(cfg.max_len + 1);
    if kind.is_array() {
        len = crate::gen::nearest_arr_len(len);
    }
    let hint = [Hint::Exact, Hint::Inexact, Hint::Unbounded][c.below(3)];
    let mut layout = if kind.consuming() { cfg.layouts[c.below(cfg.layouts.len())] } else { Layout::Tracked };
    if kind == Kind::IterOwn && layout == Layout::Zst {
        layout = Layout::Tracked;
    }
    let flags = c.u8();
    let nthreads = 1 + c.below(cfg.max_threads);
    let mut threads: Vec<Vec<Op>> = vec![];
    for _ in 0..nthreads {
        let nops = c.below(9);
        let mut ops = vec![];
        for _ in 0..nops {
            if c.done() {
                break;
            }
            let op = match c.below(12) {
                0 | 1 => Op::Next,
                2 => Op::NextIdVal,
                3 | 4 => {
                    let n = size(&mut c, len, cfg.boundary_sizes);
                    Op::Chunk { n, take: chunk_take(&mut c, n) }
                }
                5 => {
                    let mut n = size(&mut c, len, cfg.boundary_sizes);
                    if kind.wrapped() && n > 4096 {
                        n = 4096;
                    }
                    Op::BufNew { n: n.max(1) }
                }
                6 | 7 => Op::BufNext { take: chunk_take(&mut c, len + 3) },
                8 if cfg.queries => {
                    if c.u8() & 1 == 0 {
                        Op::Len
                    } else {
                        Op::HasMore
                    }
                }
                9 if cfg.skip => Op::Skip,
                10 => Op::Drain(how(&mut c, len, cfg.composite)),
                _ => Op::ValuesLoop { max: c.below(len + 2) },
            };
            ops.push(op);
        }
        threads.push(ops);
    }
    if flags & 1 == 1 {
        for t in threads.iter_mut() {
            let h = how(&mut c, len, cfg.composite);
            t.push(Op::Drain(h));
        }
    }
    let terminal = if flags & 2 == 2 {
        Terminal::IntoSeq { take: take(&mut c, len + 1) }
    } else {
        Terminal::Drop
    };
    let sched: Vec<u8> = if cfg.sched {
        let mut v = vec![];
        while !c.done() && v.len() < 400 {
            v.push(c.u8());
        }
        v
    } else {
        vec![]
    };
    let mut case = Case::simple(kind, len, threads);
    case.hint = hint;
    case.layout = layout;
    case.vseed = 1 + (flags as u64 >> 4);
    case.extra_cap = (flags as usize >> 2) & 3;
    case.terminal = terminal;
    case.sched = sched;
    if kind.is_range() {
        case.range_start = c.below(50);
    }
    Some(case)
}

pub const ALL: DecCfg = DecCfg {
    kinds: ALL_KINDS,
    max_len: 24,
    max_threads: 3,
    sched: false,
    boundary_sizes: false,
    skip: true,
    queries: true,
    composite: true,
    layouts: &[Layout::Tracked, Layout::Boxed, Layout::Str, Layout::Zst],
};
