//! Bodies of the libFuzzer targets (engine E6). The property whose oracle runs inside the target is
//! chosen with VERIF_FUZZ_PROP; a violation writes the case as a replay file into VERIF_FUZZ_OUT and
//! aborts, so that libFuzzer records the input as a crash.

use crate::case::*;
use crate::fuzzdec::{decode, DecCfg};
use crate::history::History;
use crate::oracle::{self, Violation};
use std::sync::atomic::{AtomicU64, Ordering};
use std::sync::OnceLock;

static RUNS: AtomicU64 = AtomicU64::new(0);
static DECODED: AtomicU64 = AtomicU64::new(0);
static NONTRIVIAL: AtomicU64 = AtomicU64::new(0);
static DISTINCT_NT: std::sync::Mutex<Option<std::collections::HashSet<u64>>> = std::sync::Mutex::new(None);
static SAMPLE: std::sync::Mutex<Option<String>> = std::sync::Mutex::new(None);

fn note_nontrivial(case: &Case) {
    NONTRIVIAL.fetch_add(1, Ordering::Relaxed);
    let mut g = DISTINCT_NT.lock().expect("lock");
    let set = g.get_or_insert_with(Default::default);
    if set.insert(case.hash64()) && set.len() % 997 == 1 {
        *SAMPLE.lock().expect("lock") = Some(case.to_line());
    }
}

fn distinct_nt() -> usize {
    DISTINCT_NT.lock().expect("lock").as_ref().map_or(0, |s| s.len())
}

fn prop() -> &'static str {
    static P: OnceLock<String> = OnceLock::new();
    P.get_or_init(|| std::env::var("VERIF_FUZZ_PROP").unwrap_or_else(|_| "C03".into()))
}

fn out_dir() -> std::path::PathBuf {
    std::env::var("VERIF_FUZZ_OUT").map(Into::into).unwrap_or_else(|_| std::env::temp_dir())
}

fn silence_panics() {
    static ONCE: OnceLock<()> = OnceLock::new();
    ONCE.get_or_init(|| {
        std::panic::set_hook(Box::new(|_| {}));
    });
}

fn stats() {
    let n = RUNS.fetch_add(1, Ordering::Relaxed) + 1;
    if n % 2048 == 0 {
        let _ = std::fs::write(
            out_dir().join("fuzz-stats.json"),
            serde_json::json!({
                "runs": n,
                "decoded": DECODED.load(Ordering::Relaxed),
                "nontrivial": NONTRIVIAL.load(Ordering::Relaxed),
                "distinct_nontrivial": distinct_nt(),
                "sample": SAMPLE.lock().expect("lock").clone(),
            })
            .to_string(),
        );
    }
}

fn report(case: &Case, v: &Violation, engine: &str) -> ! {
    let mut j = case.to_json();
    if let Some(m) = j.as_object_mut() {
        m.insert("engine".into(), serde_json::json!(engine));
        m.insert("property".into(), serde_json::json!(prop()));
        m.insert("violation".into(), serde_json::json!(format!("{}: {}", v.what, v.detail)));
    }
    let path = out_dir().join(format!("violation-{}-{:016x}.json", prop(), case.hash64()));
    let _ = std::fs::write(&path, serde_json::to_string_pretty(&j).unwrap_or_default());
    eprintln!("VIOLATION property={} replay={} [{}] {}", prop(), path.display(), v.what, v.detail);
    std::process::abort()
}

const SEQ_CONSUMING: DecCfg = DecCfg {
    kinds: &[Kind::VecOwn, Kind::ArrOwn, Kind::IterOwn],
    max_len: 24,
    max_threads: 3,
    sched: false,
    boundary_sizes: false,
    skip: true,
    queries: false,
    composite: true,
    layouts: &[Layout::Boxed, Layout::Str, Layout::Tracked, Layout::Zst],
};

const SEQ_BOUNDARY: DecCfg = DecCfg {
    kinds: ALL_KINDS,
    max_len: 5,
    max_threads: 1,
    sched: false,
    boundary_sizes: true,
    skip: true,
    queries: true,
    composite: false,
    layouts: &[Layout::Tracked],
};

fn drains_everything(case: &Case) -> bool {
    !case.threads.is_empty()
        && case.threads.iter().all(|t| matches!(t.last(), Some(Op::Drain(_))))
        && !case.threads.iter().any(|t| t.iter().any(|o| matches!(o, Op::Skip)))
}

fn judge_seq(h: &History) -> (Result<(), Violation>, bool) {
    let case = &h.case;
    let panic_free = match oracle::unexpected_panic(h) {
        Some(m) => Err(Violation { what: "panic", detail: m }),
        None => Ok(()),
    };
    match prop() {
        "C01" => {
            if drains_everything(case) {
                (panic_free.and_then(|_| oracle::c01_exactly_once(h)), case.threads.len() >= 2)
            } else {
                (Ok(()), false)
            }
        }
        "C03" => (panic_free.and_then(|_| oracle::c03_chunk_contract(h)), h.ops.iter().any(|o| matches!(o.res, crate::history::Res::Chunk { .. }))),
        "C08" | "C15" => (panic_free.and_then(|_| oracle::c08_exactly_once_ownership(h)), case.kind.consuming()),
        "C10" => (panic_free.and_then(|_| oracle::c10_into_seq(h)), matches!(case.terminal, Terminal::IntoSeq { .. })),
        "C16" => (crate::c16::c16_oracle(h), true),
        _ => (
            panic_free
                .and_then(|_| oracle::c03_chunk_contract(h))
                .and_then(|_| oracle::c02_index_fidelity(h))
                .and_then(|_| oracle::c08_exactly_once_ownership(h))
                .and_then(|_| oracle::c10_into_seq(h)),
            true,
        ),
    }
}

/// The case the sequential target runs for these bytes (also used to turn a crash input into a replay file).
pub fn seq_case(p: &str, data: &[u8]) -> Option<Case> {
    let cfg: &DecCfg = match p {
        "C08" | "C15" => &SEQ_CONSUMING,
        "C16" => &SEQ_BOUNDARY,
        _ => &crate::fuzzdec::ALL,
    };
    let mut case = decode(data, cfg)?;
    if p == "C16" {
        // huge chunks are never drained
        for t in case.threads.iter_mut() {
            for o in t.iter_mut() {
                match o {
                    Op::Chunk { take, .. } | Op::BufNext { take } => *take = (*take).min(2),
                    Op::Drain(_) | Op::ValuesLoop { .. } => *o = Op::Next,
                    _ => {}
                }
            }
        }
        if let Terminal::IntoSeq { take } = &mut case.terminal {
            *take = (*take).min(3);
        }
    }
    Some(case)
}

/// One libFuzzer iteration of the sequential target.
pub fn seq_one(data: &[u8]) {
    silence_panics();
    stats();
    let Some(case) = seq_case(prop(), data) else { return };
    DECODED.fetch_add(1, Ordering::Relaxed);
    let h = crate::seq::run_seq(&case);
    let (verdict, nt) = judge_seq(&h);
    if nt {
        note_nontrivial(&case);
    }
    if let Err(v) = verdict {
        report(&case, &v, "seq");
    }
}

#[cfg(orx_concurrent_iter_verif)]
const SCHED: DecCfg = DecCfg {
    kinds: ALL_KINDS,
    max_len: 10,
    max_threads: 4,
    sched: true,
    boundary_sizes: false,
    skip: true,
    queries: true,
    composite: true,
    layouts: &[Layout::Tracked],
};

/// One libFuzzer iteration of the schedule-engine target.
#[cfg(orx_concurrent_iter_verif)]
pub fn sched_one(data: &[u8]) {
    use crate::props_sched as ps;
    silence_panics();
    stats();
    let Some(mut case) = decode(data, &SCHED) else { return };
    let p = prop();
    if p == "C01" || p == "C12" {
        // exactly-once needs histories without skip in which every thread drains
        for t in case.threads.iter_mut() {
            t.retain(|o| !matches!(o, Op::Skip));
            if !matches!(t.last(), Some(Op::Drain(_))) {
                t.push(Op::Drain(How::Next));
            }
        }
    }
    if p == "C04" {
        for t in case.threads.iter_mut() {
            t.retain(|o| !matches!(o, Op::Drain(How::ForEach(_)) | Op::Drain(How::EnumForEach(_)) | Op::Drain(How::Fold(_))));
        }
    }
    DECODED.fetch_add(1, Ordering::Relaxed);
    let h = crate::sched::run_sched(&case);
    let o = match p {
        "C01" => ps::judge_c01(&h),
        "C02" => ps::judge_c02(&h),
        "C03" => ps::judge_c03(&h),
        "C04" => ps::judge_c04(&h),
        "C05" => ps::judge_c05(&h),
        "C06" => ps::judge_c06(&h),
        "C07" => ps::judge_c07(&h),
        "C09" => ps::judge_c09(&h),
        "C11" => ps::judge_c11_racing(&h),
        "C12" => ps::judge_c12(&h),
        _ => ps::judge_c04(&h),
    };
    if o.nontrivial {
        note_nontrivial(&case);
    }
    if let Err(v) = o.verdict {
        report(&case, &v, "sched");
    }
}
