//! proptest strategies for cases. Every random choice of a run is made here (or in the libFuzzer
//! decoder), so that shrinking and replay work; the oracles and engines are deterministic.

use crate::case::*;
use proptest::collection::vec;
use proptest::prelude::*;

#[derive(Clone, Debug)]
pub struct GenCfg {
    pub kinds: Vec<Kind>,
    pub layouts: Vec<Layout>,
    pub max_len: usize,
    pub min_threads: usize,
    pub max_threads: usize,
    pub max_ops: usize,
    /// weights of the operation classes
    pub w_next: u32,
    pub w_nextid: u32,
    pub w_chunk: u32,
    pub w_bufnew: u32,
    pub w_bufnext: u32,
    pub w_len: u32,
    pub w_has: u32,
    pub w_skip: u32,
    pub w_loops: u32,
    pub w_drain_elem: u32,
    pub w_drain_composite: u32,
    pub w_lowlevel: u32,
    /// exclude `AtomicIter::get` and `AtomicCounter::store` / `fetch_and_add` (known finding D10) from low-level ops
    pub ll_exclude_known: bool,
    /// every thread ends with a Drain
    pub end_with_drain: bool,
    /// drains at the end may be composite (for_each / fold)
    pub end_drain_composite: bool,
    /// only composite drains at the end (C12)
    pub end_drain_only_composite: bool,
    /// number of extra pulls appended after the final drain (C05)
    pub extra_after_end: usize,
    /// schedule bytes to generate (0 = none, sequential engines)
    pub sched_len: usize,
    pub freeze: bool,
    pub fault_sites: Vec<FaultSite>,
    /// 0 = Drop only, 1 = IntoSeq only, 2 = either
    pub terminal_mode: u8,
    pub extra_cap: bool,
    pub hints: Vec<Hint>,
    /// about 1 in 16 chunk sizes is replaced by a size near usize::MAX / usize::MAX/2
    pub huge_chunks: bool,
    /// every second chunk size (instead of one in 16) is one of the boundary sizes
    pub huge_often: bool,
    /// smallest generated chunk size (1, or 0 where zero sizes are part of the domain)
    pub min_chunk: usize,
    /// adaptor kinds: pull 0..len elements before adapting
    pub pre_pulls: bool,
    /// one thread (not the last) may end with an `UnwindPull` operation instead of running to its end
    pub unwind_pull: bool,
    /// ranges: occasionally empty / inverted ranges and ranges in the upper half of usize
    pub odd_ranges: bool,
    /// size classes: 0 = every case is small (`max_len`); L > 0 = about one case in L is *medium* (up to 300
    /// elements, chunk sizes and capacities to match) and one in 4L *large* (up to 9000 elements): fast paths
    /// behind a size threshold, buffers that reallocate, long chunk pulls
    pub large: u32,
    /// about one case in four runs the same operation list on every thread (symmetric workers)
    pub symmetric: bool,
    /// E1: about one case in 32 lets waiting threads poll 40 .. 6000 more times before they are descheduled
    pub long_spins: bool,
    /// with a fault: in every second case the panicking thread catches the panic and goes on with its next operation
    pub keep_going: bool,
}

impl GenCfg {
    pub fn base(kinds: &[Kind]) -> GenCfg {
        GenCfg {
            kinds: kinds.to_vec(),
            // consuming kinds: one case in four over zero-sized elements (counted, not identified)
            layouts: vec![Layout::Tracked, Layout::Tracked, Layout::Tracked, Layout::Zst],
            max_len: 12,
            min_threads: 1,
            max_threads: 4,
            max_ops: 6,
            w_next: 4,
            w_nextid: 4,
            w_chunk: 4,
            w_bufnew: 2,
            w_bufnext: 4,
            w_len: 0,
            w_has: 0,
            w_skip: 0,
            w_loops: 2,
            w_drain_elem: 1,
            w_drain_composite: 0,
            w_lowlevel: 0,
            ll_exclude_known: true,
            end_with_drain: false,
            end_drain_composite: false,
            end_drain_only_composite: false,
            extra_after_end: 0,
            sched_len: 0,
            freeze: false,
            fault_sites: vec![],
            terminal_mode: 0,
            extra_cap: false,
            hints: vec![Hint::Exact, Hint::Inexact, Hint::Unbounded],
            huge_chunks: false,
            huge_often: false,
            min_chunk: 1,
            pre_pulls: false,
            unwind_pull: false,
            odd_ranges: true,
            large: 64,
            symmetric: true,
            long_spins: true,
            keep_going: true,
        }
    }
}

/// Operation with unresolved sizes (resolved against the generated length in the final map).
#[derive(Clone, Debug)]
enum RawOp {
    Next,
    NextIdVal,
    Chunk(u16, u16),
    BufNew(u16),
    BufNext(u16),
    Len,
    HasMore,
    Skip,
    ValuesLoop(u16),
    IdsValuesLoop(u16),
    Drain(u8, u16),
    Ll(u8, u16, u16),
}

/// monotone map of a raw 16-bit value into lo..=hi
fn scale(raw: u16, lo: usize, hi: usize) -> usize {
    if hi <= lo {
        return lo;
    }
    lo + (((raw as u64) * ((hi - lo + 1) as u64)) >> 16) as usize
}

fn take_of(raw: u16, n: usize) -> usize {
    // upper half: consume everything; lower half: a strict prefix (possibly empty)
    if raw >= 0x8000 {
        usize::MAX
    } else {
        scale(raw << 1, 0, n.saturating_sub(1))
    }
}

/// `take` of a chunk pull: how many items are taken by `next()` and what happens to the rest / how everything
/// is consumed (see `interp::decode_take`); about half of the uses are the plain ones
fn chunk_take_of(raw: u16, n: usize) -> usize {
    if raw >= 0x8000 {
        let m = if raw & 0x10 == 0 { 0 } else { ((raw >> 5) & 3) as usize };
        usize::MAX - m
    } else {
        let k = scale(raw << 1, 0, n.saturating_sub(1));
        let mode = if raw & 0x10 == 0 { 0 } else { ((raw >> 5) & 7) as u8 };
        crate::interp::encode_take(k.min(0xffff), mode)
    }
}

fn how_of(sel: u8, raw: u16, len: usize, composite_ok: bool, only_composite: bool) -> How {
    let n = scale(raw, 1, len + 3);
    // chunk size 1 takes a different path in for_each / fold: make it frequent
    let cn = if raw & 3 == 0 { 1 } else { n };
    if only_composite {
        return match sel % 3 {
            0 => How::ForEach(cn),
            1 => How::EnumForEach(cn),
            _ => How::Fold(cn),
        };
    }
    let m = if composite_ok { 9 } else { 6 };
    match sel % m {
        0 => How::Next,
        1 => How::NextIdVal,
        2 => How::Chunk(n),
        3 => How::Buf(n),
        4 => How::Values,
        5 => How::IdsValues,
        6 => How::ForEach(cn),
        7 => How::EnumForEach(cn),
        _ => How::Fold(cn),
    }
}

fn chunk_size(raw: u16, len: usize, cfg: &GenCfg) -> usize {
    if cfg.huge_chunks && (raw & 0xF == 0xF || (cfg.huge_often && raw & 1 == 1)) {
        // also usize::MAX / k: k threads adding that much overflow together although no two of them do
        return match (raw >> 4) % 12 {
            0 | 1 => usize::MAX,
            2 => usize::MAX - 1,
            3 => usize::MAX / 2 + 1,
            4 => usize::MAX / 2,
            5 => usize::MAX / 3 + 1,
            6 => usize::MAX / 4 + 1,
            7 => usize::MAX / 4,
            8 => (1usize << 62) - 1,
            9 => 1usize << 63,
            _ => usize::MAX - len,
        };
    }
    scale(raw, cfg.min_chunk, len + 3)
}

fn resolve(op: &RawOp, len: usize, cfg: &GenCfg) -> Op {
    match *op {
        RawOp::Next => Op::Next,
        RawOp::NextIdVal => Op::NextIdVal,
        RawOp::Chunk(n, t) => {
            let n = chunk_size(n, len, cfg);
            Op::Chunk {
                n,
                take: chunk_take_of(t, n),
            }
        }
        RawOp::BufNew(n) => Op::BufNew {
            n: chunk_size(n, len, cfg),
        },
        RawOp::BufNext(t) => Op::BufNext {
            take: chunk_take_of(t, len + 3),
        },
        RawOp::Len => Op::Len,
        RawOp::HasMore => Op::HasMore,
        RawOp::Skip => Op::Skip,
        RawOp::ValuesLoop(m) => Op::ValuesLoop {
            max: scale(m, 0, len + 2),
        },
        RawOp::IdsValuesLoop(m) => Op::IdsValuesLoop {
            max: scale(m, 0, len + 2),
        },
        RawOp::Drain(sel, raw) => Op::Drain(how_of(sel, raw, len, cfg.w_drain_composite > 0, false)),
        RawOp::Ll(sel, a, b) => {
            let m = if cfg.ll_exclude_known { 4 } else { 7 };
            match sel % m {
                0 => Op::LlFetchOne,
                1 => {
                    let n = scale(a, 0, len + 3);
                    Op::LlFetchN {
                        n,
                        take: chunk_take_of(b, n),
                    }
                }
                2 => Op::LlProgress {
                    n: scale(a, 0, len + 3),
                },
                3 => Op::LlEarlyExit,
                4 => Op::LlGet {
                    idx: scale(a, 0, len + 1),
                },
                5 => Op::LlStore {
                    v: scale(a, 0, len + 2),
                },
                _ => Op::LlFetchAdd {
                    n: scale(a, 0, len + 3),
                },
            }
        }
    }
}

fn raw_op_strategy(cfg: &GenCfg) -> BoxedStrategy<RawOp> {
    let mut alts: Vec<(u32, BoxedStrategy<RawOp>)> = vec![];
    let mut add = |w: u32, s: BoxedStrategy<RawOp>| {
        if w > 0 {
            alts.push((w, s));
        }
    };
    add(cfg.w_next, Just(RawOp::Next).boxed());
    add(cfg.w_nextid, Just(RawOp::NextIdVal).boxed());
    add(
        cfg.w_chunk,
        (any::<u16>(), any::<u16>())
            .prop_map(|(n, t)| RawOp::Chunk(n, t))
            .boxed(),
    );
    add(cfg.w_bufnew, any::<u16>().prop_map(RawOp::BufNew).boxed());
    add(cfg.w_bufnext, any::<u16>().prop_map(RawOp::BufNext).boxed());
    add(cfg.w_len, Just(RawOp::Len).boxed());
    add(cfg.w_has, Just(RawOp::HasMore).boxed());
    add(cfg.w_skip, Just(RawOp::Skip).boxed());
    add(
        cfg.w_loops,
        prop_oneof![
            any::<u16>().prop_map(RawOp::ValuesLoop),
            any::<u16>().prop_map(RawOp::IdsValuesLoop)
        ]
        .boxed(),
    );
    add(
        cfg.w_drain_elem + cfg.w_drain_composite,
        (any::<u8>(), any::<u16>())
            .prop_map(|(s, r)| RawOp::Drain(s, r))
            .boxed(),
    );
    add(
        cfg.w_lowlevel,
        (any::<u8>(), any::<u16>(), any::<u16>())
            .prop_map(|(s, a, b)| RawOp::Ll(s, a, b))
            .boxed(),
    );
    if alts.is_empty() {
        return Just(RawOp::Next).boxed();
    }
    proptest::strategy::Union::new_weighted(alts).boxed()
}

#[derive(Clone, Debug)]
enum RawSched {
    None,
    Sparse(Vec<(u16, u8)>),
    Dense(Vec<u8>),
    RoundRobin,
}

fn sched_strategy(len: usize) -> BoxedStrategy<RawSched> {
    if len == 0 {
        return Just(RawSched::None).boxed();
    }
    prop_oneof![
        3 => vec((any::<u16>(), 1u8..=255u8), 0..=4).prop_map(RawSched::Sparse),
        3 => vec(prop_oneof![2 => Just(0u8), 3 => 1u8..=255u8], 0..=len).prop_map(RawSched::Dense),
        1 => Just(RawSched::RoundRobin),
    ]
    .boxed()
}

fn expand_sched(raw: &RawSched, len: usize) -> Vec<u8> {
    match raw {
        RawSched::None => vec![],
        RawSched::Sparse(ps) => {
            if ps.is_empty() {
                return vec![];
            }
            let mut v = vec![0u8; 0];
            for (p, b) in ps {
                let pos = scale(*p, 0, len.saturating_sub(1));
                if v.len() <= pos {
                    v.resize(pos + 1, 0);
                }
                v[pos] = *b;
            }
            v
        }
        RawSched::Dense(v) => v.clone(),
        RawSched::RoundRobin => vec![1u8; len],
    }
}

pub fn nearest_arr_len(len: usize) -> usize {
    ARR_LENS.iter().copied().filter(|l| *l <= len).max().unwrap_or(0)
}

#[derive(Clone, Debug)]
struct RawCase {
    kind: usize,
    layout: usize,
    hint: usize,
    len: u16,
    extra_cap: u8,
    vseed: u64,
    threads: Vec<Vec<RawOp>>,
    end_drains: Vec<(u8, u16)>,
    extra: Vec<RawOp>,
    sched: RawSched,
    freeze: Option<(u8, u16)>,
    fault: Option<(u8, u16)>,
    terminal: (bool, u16),
    range_start: u16,
}

pub fn case_strategy(cfg: &GenCfg) -> BoxedStrategy<Case> {
    let cfg = cfg.clone();
    let op = raw_op_strategy(&cfg);
    // extra pulls after the end: pulls only
    let mut pull_cfg = cfg.clone();
    pull_cfg.w_len = 0;
    pull_cfg.w_has = 0;
    pull_cfg.w_skip = 0;
    pull_cfg.w_lowlevel = 0;
    pull_cfg.w_drain_composite = 0;
    pull_cfg.w_drain_elem = 0;
    let pull_op = raw_op_strategy(&pull_cfg);
    let threads = vec(vec(op, 0..=cfg.max_ops), cfg.min_threads..=cfg.max_threads);
    let end_drains = vec((any::<u8>(), any::<u16>()), cfg.max_threads);
    let extra = vec(pull_op, 0..=cfg.extra_after_end);
    let freeze = if cfg.freeze {
        proptest::option::weighted(0.8, (any::<u8>(), any::<u16>())).boxed()
    } else {
        Just(None).boxed()
    };
    let fault = if cfg.fault_sites.is_empty() {
        Just(None).boxed()
    } else {
        (any::<u8>(), any::<u16>()).prop_map(Some).boxed()
    };
    let a = (
        0..cfg.kinds.len(),
        0..cfg.layouts.len(),
        0..cfg.hints.len(),
        any::<u16>(),
        any::<u8>(),
        1u64..=0xffff,
    );
    let b = (
        threads,
        end_drains,
        extra,
        sched_strategy(cfg.sched_len),
        freeze,
        fault,
        (any::<bool>(), any::<u16>()),
        any::<u16>(),
    );
    (a, b)
        .prop_map(
            |((kind, layout, hint, len, extra_cap, vseed), (threads, end_drains, extra, sched, freeze, fault, terminal, range_start))| RawCase {
                kind,
                layout,
                hint,
                len,
                extra_cap,
                vseed,
                threads,
                end_drains,
                extra,
                sched,
                freeze,
                fault,
                terminal,
                range_start,
            },
        )
        .prop_map(move |raw| build_case(&raw, &cfg))
        .boxed()
}

fn range_start_of(kind: Kind, raw: &RawCase, cfg: &GenCfg, len: usize) -> usize {
    if !kind.is_range() {
        return 0;
    }
    let base = scale(raw.range_start, 0, 1000);
    if !cfg.odd_ranges {
        return base;
    }
    match raw.vseed % 16 {
        // upper half of usize: start + position arithmetic must not overflow
        13 => usize::MAX / 2 + base,
        14 => usize::MAX - len - (base % 7),
        _ => base,
    }
}

fn range_end_of(kind: Kind, raw: &RawCase, cfg: &GenCfg, _len: usize) -> Option<usize> {
    if !kind.is_range() || !cfg.odd_ranges {
        return None;
    }
    let start = scale(raw.range_start, 0, 1000);
    match raw.vseed % 16 {
        // inverted range: an ordinary empty source
        15 => Some(start.saturating_sub(1 + (raw.vseed as usize / 16) % 5)),
        _ => None,
    }
}

/// 0 small, 1 medium, 2 large
fn size_class(raw: &RawCase, cfg: &GenCfg) -> u8 {
    if cfg.large == 0 {
        return 0;
    }
    match (raw.vseed >> 4) % (4 * cfg.large as u64) {
        0 => 2,
        1..=4 => 1,
        _ => 0,
    }
}

fn build_case(raw: &RawCase, cfg: &GenCfg) -> Case {
    let kind = cfg.kinds[raw.kind];
    let class = size_class(raw, cfg);
    let mut len = match class {
        0 => scale(raw.len, 0, cfg.max_len),
        1 => scale(raw.len, 0, 300),
        _ => scale(raw.len, 0, 9000),
    };
    if kind.is_array() {
        len = nearest_arr_len(len);
    }
    let mut layout = if kind.consuming() {
        cfg.layouts[raw.layout]
    } else {
        Layout::Tracked
    };
    if kind == Kind::IterOwn && layout == Layout::Zst {
        // the probe hands out identified elements only
        layout = Layout::Tracked;
    }
    let mut threads: Vec<Vec<Op>> = raw
        .threads
        .iter()
        .map(|t| t.iter().map(|o| resolve(o, len, cfg)).collect())
        .collect();
    if kind.wrapped() {
        // buffered pulls on wrapped iterators allocate chunk_size slots by documentation: keep them small
        for t in threads.iter_mut() {
            for o in t.iter_mut() {
                match o {
                    Op::BufNew { n } if *n > 20_000 => *n = 1 + (*n % 61),
                    Op::Drain(How::Buf(n)) | Op::Drain(How::ForEach(n)) | Op::Drain(How::EnumForEach(n)) | Op::Drain(How::Fold(n)) if *n > 20_000 => *n = 1 + (*n % 61),
                    _ => {}
                }
            }
        }
    }
    if kind.wrapped() {
        // on the ticket protocol a bare reservation or an out-of-turn `get` waits for a pull that a
        // sequential history never makes: not part of the sequence domain
        for t in threads.iter_mut() {
            for o in t.iter_mut() {
                if matches!(o, Op::LlProgress { .. } | Op::LlGet { .. } | Op::LlStore { .. } | Op::LlFetchAdd { .. }) {
                    *o = Op::LlFetchOne;
                }
            }
        }
    }
    if cfg.end_with_drain {
        for (i, t) in threads.iter_mut().enumerate() {
            let (sel, r) = raw.end_drains[i % raw.end_drains.len()];
            t.push(Op::Drain(how_of(
                sel,
                r,
                len,
                cfg.end_drain_composite,
                cfg.end_drain_only_composite,
            )));
        }
    }
    if !raw.extra.is_empty() {
        // pulls after the end was observed, spread over the threads
        let nt = threads.len();
        for (i, o) in raw.extra.iter().enumerate() {
            threads[i % nt].push(resolve(o, len, cfg));
        }
    }
    if cfg.symmetric && threads.len() >= 2 && raw.extra_cap & 0x30 == 0x30 {
        let t0 = threads[0].clone();
        for t in threads.iter_mut().skip(1) {
            *t = t0.clone();
        }
    }
    if cfg.unwind_pull && threads.len() >= 2 && raw.extra_cap & 2 == 2 {
        // thread 0 panics in user code at a generated point and keeps pulling while it unwinds
        let t = &mut threads[0];
        let cut = scale(raw.range_start, 0, t.len().saturating_sub(1));
        t.truncate(cut);
        t.push(Op::UnwindPull { k: 1 + (raw.vseed as usize % 3) });
    }
    let sched = expand_sched(&raw.sched, cfg.sched_len);
    let freeze = raw.freeze.map(|(t, k)| {
        (
            scale((t as u16) << 8, 0, threads.len() - 1),
            scale(k, 0, 40),
        )
    });
    let fault = raw.fault.map(|(s, k)| Fault {
        site: cfg.fault_sites[(s as usize) % cfg.fault_sites.len()],
        k: scale(k, 0, len + 1),
    });
    let terminal = match cfg.terminal_mode {
        0 => Terminal::Drop,
        1 => Terminal::IntoSeq {
            take: take_of(raw.terminal.1, len + 1),
        },
        _ => {
            if raw.terminal.0 {
                Terminal::IntoSeq {
                    take: take_of(raw.terminal.1, len + 1),
                }
            } else {
                Terminal::Drop
            }
        }
    };
    Case {
        kind,
        hint: cfg.hints[raw.hint],
        layout,
        len,
        range_start: range_start_of(kind, raw, cfg, len),
        range_end: range_end_of(kind, raw, cfg, len),
        // spare capacity: a few slots, or (as after pushes into a growing Vec) as much again / three times as much
        extra_cap: if cfg.extra_cap {
            match raw.extra_cap % 8 {
                6 => len,
                7 => 3 * len + 5,
                k => k as usize,
            }
        } else {
            0
        },
        pre: if cfg.pre_pulls && kind.adaptor() && raw.extra_cap & 1 == 1 { scale(raw.range_start, 0, len) } else { 0 },
        vseed: raw.vseed,
        threads,
        sched,
        freeze,
        fault,
        terminal,
        keep_going: cfg.keep_going && raw.fault.is_some() && raw.extra_cap & 0x40 != 0,
        spin: if cfg.long_spins && cfg.sched_len > 0 && (raw.vseed >> 7) % 32 == 5 {
            [40usize, 300, 1100, 2300, 6000][(raw.vseed % 5) as usize]
        } else {
            0
        },
    }
}
