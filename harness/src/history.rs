//! Recorded history of a case: what every elementary operation returned, when, and what the
//! source looked like. All oracles are functions of a `History`.

use crate::case::{Case, Kind};
use crate::elem::ItemRec;

#[derive(Clone, Copy, Debug, PartialEq, Eq, Hash)]
pub enum Tag {
    Next,
    NextIdVal,
    Chunk { n: usize },
    BufNext { n: usize },
    Len,
    HasMore,
    Skip,
    /// one closure invocation inside for_each / enumerate_for_each / fold (not a timed pull)
    Visit,
    /// a for_each / enumerate_for_each / fold call returned (it observed the end)
    CompositeDone,
    /// fold result (three monoids over the visited values)
    FoldResult,
    LowLevel,
}

#[derive(Clone, Copy, Debug, PartialEq, Eq, Hash)]
pub enum HasRec {
    Yes(usize),
    Maybe,
    No,
}

#[derive(Clone, Debug, PartialEq, Eq)]
pub enum Res {
    End,
    One {
        idx: Option<usize>,
        item: ItemRec,
    },
    Chunk {
        begin: usize,
        /// `values.len()` right after the pull
        announced: usize,
        /// items actually consumed by the harness (a prefix of the chunk)
        items: Vec<ItemRec>,
        /// `len()` decreased by exactly one per `next()`
        len_ok: bool,
        /// only when fully consumed: `next()` after the announced items returned `None`
        end_ok: bool,
        fully_consumed: bool,
        /// items obtained from the rest of a partly consumed chunk through other `Iterator` methods
        /// (`nth`, `last`, `skip`, `step_by`): (offset within the chunk, item)
        tail: Vec<(usize, ItemRec)>,
    },
    Len(Option<usize>),
    Has(HasRec),
    Unit,
    Fold {
        sum: u64,
        xor: u64,
        max: u64,
        count: u64,
    },
    /// low-level call results that carry no element
    LlIdx(Option<usize>),
    Panicked(String),
    /// a drain loop did not terminate within its bound
    Runaway,
}

#[derive(Clone, Debug)]
pub struct OpRec {
    pub thread: usize,
    /// index in the thread's operation list
    pub op_idx: usize,
    pub tag: Tag,
    pub call: u64,
    pub ret: u64,
    pub res: Res,
}

impl OpRec {
    pub fn is_pull(&self) -> bool {
        matches!(
            self.tag,
            Tag::Next | Tag::NextIdVal | Tag::Chunk { .. } | Tag::BufNext { .. }
        )
    }
    /// number of positions the pull requests from the cursor
    pub fn requested(&self) -> usize {
        match self.tag {
            Tag::Chunk { n } | Tag::BufNext { n } => n,
            _ => 1,
        }
    }
    pub fn delivered_any(&self) -> bool {
        matches!(self.res, Res::One { .. } | Res::Chunk { .. })
    }
}

/// Positions -> expected values of the source sequence.
#[derive(Clone, Debug)]
pub enum Vals {
    Table(Vec<u64>),
    /// position i holds `start + i`
    RangeFrom(usize),
}

#[derive(Clone, Debug)]
pub struct SrcInfo {
    pub kind: Kind,
    pub len: usize,
    pub vals: Vals,
    /// addresses of the source elements (reference kinds and adaptors over them)
    pub addrs: Vec<usize>,
    /// element ids are meaningful (not ranges, not ZST)
    pub has_ids: bool,
}

impl SrcInfo {
    pub fn val_at(&self, pos: usize) -> Option<u64> {
        if pos >= self.len {
            return None;
        }
        match &self.vals {
            Vals::Table(t) => t.get(pos).copied(),
            Vals::RangeFrom(s) => Some((*s as u64).wrapping_add(pos as u64)),
        }
    }
    pub fn pos_of_val(&self, v: u64) -> Option<usize> {
        match &self.vals {
            Vals::Table(t) => t.iter().position(|x| *x == v),
            Vals::RangeFrom(s) => {
                let s = *s as u64;
                if v >= s && ((v - s) as usize) < self.len {
                    Some((v - s) as usize)
                } else {
                    None
                }
            }
        }
    }
}

#[derive(Clone, Debug, Default)]
pub struct LedgerSnap {
    pub drops: Vec<u32>,
    pub clones: Vec<u32>,
    pub clone_drops: Vec<u32>,
    pub zst_drops: u64,
    pub wild: u32,
}

#[derive(Clone, Debug)]
pub enum TermRes {
    Dropped,
    /// items of the remainder consumed by the harness, and its announced size hint
    Seq {
        items: Vec<ItemRec>,
        /// total number of items the remainder yielded (when fully consumed)
        total: Option<usize>,
    },
    Panicked(String),
}

#[derive(Clone, Debug, Default)]
pub struct SchedStats {
    pub events: u64,
    pub switches: u64,
    pub switches_in_op: u64,
    pub spin_episodes: u64,
    pub spin_episodes_nonfrozen: u64,
    pub hang: bool,
    pub step_bound_hit: bool,
    pub overlap: bool,
    pub race: Option<String>,
    pub probe_handoffs: u64,
    pub frozen_inside_op: bool,
    pub froze: bool,
    pub others_finished_while_frozen: bool,
    pub unmodelled_sync: bool,
    /// threads that were waiting (spinning) when a fault fired
    pub waiters_at_fault: u64,
    pub choice_points: u64,
    /// shared-memory event trace (recorded only when requested): (thread, location index in order of first use, kind 0=load 1=store 2=rmw, wrote, old, new)
    pub trace: Vec<(u8, u16, u8, bool, u64, u64)>,
    /// the threads ran one after another (sequential engine, or the schedule engine without preemption)
    pub sequential: bool,
}

#[derive(Clone, Debug)]
pub struct History {
    pub case: Case,
    pub info: SrcInfo,
    pub ops: Vec<OpRec>,
    pub term: TermRes,
    /// ledger after the iterator (and any remainder) is gone but callers still own their items
    pub ledger_mid: LedgerSnap,
    /// ledger after callers dropped everything
    pub ledger_end: LedgerSnap,
    /// ids held by callers at `ledger_mid`
    pub held_ids: Vec<u32>,
    /// reference kinds: the source compared equal to its saved copy afterwards
    pub source_intact: bool,
    pub sched: SchedStats,
    /// each thread ran all of its operations
    pub threads_completed: Vec<bool>,
}
