//! Thread-local environment of a running case: scheduling hooks (E1 only), fault injection and
//! the history recorder. Everything here is engine independent; without hooks installed the
//! functions are cheap no-ops, so the same interpreter serves E1, E2, E3, E4 and the fuzz targets.

use crate::case::{Fault, FaultSite};
use std::cell::{Cell, RefCell};

pub trait Hooks {
    /// plain scheduling point (closure bodies, element clones)
    fn yield_pt(&self);
    /// an execution of the wrapped probe iterator's `next` (mutual exclusion + happens-before
    /// bookkeeping; yields in the middle)
    fn probe_access(&self);
    /// a read of the wrapped probe iterator's state (`size_hint`)
    fn probe_read(&self);
    /// an elementary operation of virtual thread `tid` starts
    fn op_begin(&self, tid: usize);
    /// ... ends; returns (call step, return step)
    fn op_end(&self, tid: usize) -> (u64, u64);
    /// between an injected `panic!` and its `catch_unwind` the scheduler must not preempt
    fn panic_begin(&self);
    fn panic_end(&self);
}

pub const INJECTED: &str = "verif-injected-fault";
pub const RUNAWAY: &str = "verif-runaway";
/// panic of user code that is unrelated to the iterator (Op::UnwindPull)
pub const USER_PANIC: &str = "verif-user-panic";

pub struct Env {
    pub hooks: Cell<Option<*const dyn Hooks>>,
    pub fault: Cell<Option<Fault>>,
    pub counters: [Cell<usize>; 4],
    pub fault_fired: Cell<bool>,
    /// logical clock for engines without a scheduler
    pub seq_step: Cell<u64>,
    pub records: RefCell<Vec<crate::history::OpRec>>,
}

thread_local! {
    static ENV: Env = Env {
        hooks: Cell::new(None),
        fault: Cell::new(None),
        counters: [Cell::new(0), Cell::new(0), Cell::new(0), Cell::new(0)],
        fault_fired: Cell::new(false),
        seq_step: Cell::new(0),
        records: RefCell::new(Vec::new()),
    };
}

pub fn reset_env(fault: Option<Fault>) {
    ENV.with(|e| {
        e.fault.set(fault);
        for c in &e.counters {
            c.set(0);
        }
        e.fault_fired.set(false);
        e.seq_step.set(0);
        e.records.borrow_mut().clear();
    })
}

pub fn take_records() -> Vec<crate::history::OpRec> {
    ENV.with(|e| std::mem::take(&mut *e.records.borrow_mut()))
}

pub fn push_record(r: crate::history::OpRec) {
    ENV.with(|e| e.records.borrow_mut().push(r))
}

pub fn fault_fired() -> bool {
    ENV.with(|e| e.fault_fired.get())
}

pub fn site_count(site: FaultSite) -> usize {
    ENV.with(|e| e.counters[site as usize].get())
}

pub fn with_hooks<R>(h: &dyn Hooks, f: impl FnOnce() -> R) -> R {
    struct Reset(Option<*const dyn Hooks>);
    impl Drop for Reset {
        fn drop(&mut self) {
            ENV.with(|e| e.hooks.set(self.0));
        }
    }
    let p: *const dyn Hooks = unsafe { std::mem::transmute::<&dyn Hooks, &'static dyn Hooks>(h) };
    let _r = Reset(ENV.with(|e| e.hooks.replace(Some(p))));
    f()
}

#[inline]
fn hooks() -> Option<&'static dyn Hooks> {
    ENV.with(|e| e.hooks.get()).map(|p| unsafe { &*p })
}

#[inline]
pub fn yield_pt() {
    if let Some(h) = hooks() {
        h.yield_pt()
    }
}

#[inline]
pub fn probe_access() {
    if let Some(h) = hooks() {
        h.probe_access()
    }
}

#[inline]
pub fn probe_read() {
    if let Some(h) = hooks() {
        h.probe_read()
    }
}

pub fn op_begin(tid: usize) {
    match hooks() {
        Some(h) => h.op_begin(tid),
        None => ENV.with(|e| e.seq_step.set(e.seq_step.get() + 1)),
    }
}

pub fn op_end(tid: usize) -> (u64, u64) {
    match hooks() {
        Some(h) => h.op_end(tid),
        None => ENV.with(|e| {
            let call = e.seq_step.get();
            e.seq_step.set(call + 1);
            (call, call + 1)
        }),
    }
}

thread_local! {
    static CLONE_YIELDS: Cell<bool> = const { Cell::new(true) };
}

/// Whether an element clone is a scheduling point (switched off for the lock-step comparison of an
/// adaptor with its underlying iterator, which must see identical yield-point sequences).
pub fn set_clone_yields(v: bool) {
    CLONE_YIELDS.with(|c| c.set(v))
}

pub fn clone_yields() -> bool {
    CLONE_YIELDS.with(|c| c.get())
}

thread_local! {
    static COARSE: Cell<bool> = const { Cell::new(false) };
}

/// Coarse schedules: the scheduler may switch threads only at *semantic* points - before the first shared
/// action of an elementary operation, inside the wrapped probe iterator, at closure invocations, and when
/// the running thread waits. The number of atomic accesses inside an operation then has no influence on
/// which interleaving a schedule denotes (used by the lock-step comparison of C13).
pub fn set_coarse(v: bool) {
    COARSE.with(|c| c.set(v))
}

pub fn coarse() -> bool {
    COARSE.with(|c| c.get())
}

thread_local! {
    static RECORD_TRACE: Cell<bool> = const { Cell::new(false) };
}

/// Whether the schedule engine records the shared-memory event trace of a case (C13 lock-step).
pub fn set_record_trace(v: bool) {
    RECORD_TRACE.with(|c| c.set(v))
}

pub fn record_trace() -> bool {
    RECORD_TRACE.with(|c| c.get())
}

thread_local! {
    static TEARING_DOWN: Cell<bool> = const { Cell::new(false) };
}

/// While set, a caught panic is the forced unwind of a suspended coroutine and must be re-raised.
pub fn set_tearing_down(v: bool) {
    TEARING_DOWN.with(|c| c.set(v))
}

pub fn tearing_down() -> bool {
    TEARING_DOWN.with(|c| c.get())
}

pub fn panic_end() {
    if let Some(h) = hooks() {
        h.panic_end()
    }
}

/// Counts an invocation of `site`; panics if this is the invocation selected by the case's fault.
pub fn fault_point(site: FaultSite) {
    let fire = ENV.with(|e| {
        let c = &e.counters[site as usize];
        let k = c.get();
        c.set(k + 1);
        match e.fault.get() {
            Some(f) if f.site == site && f.k == k && !e.fault_fired.get() => {
                e.fault_fired.set(true);
                true
            }
            _ => false,
        }
    });
    if fire {
        if let Some(h) = hooks() {
            h.panic_begin();
        }
        std::panic::panic_any(INJECTED);
    }
}
