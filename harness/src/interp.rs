//! The one interpreter of operation lists, shared by all engines. It executes the operations of
//! one (virtual or real) thread against a concurrent iterator and records every elementary result.

use crate::case::{FaultSite, How, Op, Terminal};
use crate::elem::{Elem, ItemRec};
use crate::history::{HasRec, OpRec, Res, Tag, TermRes};
use crate::hooks::{self, INJECTED, RUNAWAY, USER_PANIC};
use orx_concurrent_iter::iter::atomic_iter::AtomicIter;
use orx_concurrent_iter::{ConcurrentIter, HasMore};
use std::panic::{catch_unwind, AssertUnwindSafe};

pub fn panic_msg(p: &Box<dyn std::any::Any + Send>) -> String {
    if let Some(s) = p.downcast_ref::<&str>() {
        s.to_string()
    } else if let Some(s) = p.downcast_ref::<String>() {
        s.clone()
    } else {
        "<non-string panic>".to_string()
    }
}

fn rec(tid: usize, op_idx: usize, tag: Tag, call: u64, ret: u64, res: Res) {
    hooks::push_record(OpRec {
        thread: tid,
        op_idx,
        tag,
        call,
        ret,
        res,
    });
}

pub const UNTIMED: u64 = u64::MAX;

thread_local! {
    /// `Case::keep_going` of the case being run on this OS thread (engines E1 and E2 run every virtual thread here)
    static KEEP_GOING: std::cell::Cell<bool> = const { std::cell::Cell::new(false) };
}

/// Records that thread `tid` ended by a panic outside its operations (destructor of its buffered handle).
pub fn record_thread_panic(tid: usize, op_idx: usize, p: &Box<dyn std::any::Any + Send>) {
    let msg = match p.downcast_ref::<&str>() {
        Some(s) if *s == INJECTED => INJECTED.to_string(),
        _ => panic_msg(p),
    };
    rec(tid, op_idx, Tag::LowLevel, UNTIMED, UNTIMED, Res::Panicked(msg));
}

pub fn set_keep_going(on: bool) {
    KEEP_GOING.with(|k| k.set(on));
}

/// How the harness uses a chunk's `values` is encoded in `take` (old replay files decode to the plain modes):
/// * `usize::MAX - m`, m in 0..4: consume everything by m = 0 `next()` calls (checking the `len()` trajectory),
///   1 `fold`, 2 `for_each`, 3 `collect`;
/// * otherwise the low 16 bits are the number k of items taken by `next()`, bits 16..20 say what happens to the
///   rest: 0 dropped with the chunk, 1 `nth` beyond the end, 2 `nth` inside, 3 `count`, 4 `last`, 5 `skip(j).next()`,
///   6 `step_by(2)` to the end, 7 `for_each` over the rest.
pub fn decode_take(take: usize) -> (usize, u8, u8) {
    if take >= usize::MAX - 3 {
        (usize::MAX, (usize::MAX - take) as u8, 0)
    } else {
        (take & 0xffff, 0, ((take >> 16) & 0xf) as u8)
    }
}

pub fn encode_take(k: usize, rest_mode: u8) -> usize {
    (k & 0xffff) | ((rest_mode as usize & 0xf) << 16)
}

/// Consumes a chunk's values as `take` says and checks the `len()` trajectory and the `Iterator` contract of
/// the other methods used.
fn consume_values<T: Elem>(
    begin: usize,
    mut values: impl ExactSizeIterator<Item = T>,
    take: usize,
    stash: &mut Vec<T>,
) -> Res {
    let (take, full_mode, rest_mode) = decode_take(take);
    let announced = values.len();
    // chunks of astronomic length (ranges near usize::MAX, C16) are only ever used through next() and drop
    let (full_mode, rest_mode) = if announced > (1 << 20) { (0, 0) } else { (full_mode, rest_mode) };
    // (size_hint() is not compared with len(): the listed properties speak about the announced length only, and
    // the buffered chunk of a wrapped iterator keeps the default size_hint of (0, None) - see DESIGN 7)
    let mut len_ok = true;
    let mut end_ok = true;
    let mut tail: Vec<(usize, ItemRec)> = vec![];
    if take >= announced && full_mode != 0 {
        // everything, through one of the internal-iteration methods
        let mut items: Vec<ItemRec> = Vec::with_capacity(announced.min(64));
        match full_mode {
            1 => {
                let n = values.fold(0usize, |a, v| {
                    items.push(v.rec());
                    stash.push(v);
                    a + 1
                });
                end_ok = n == announced;
            }
            2 => values.for_each(|v| {
                items.push(v.rec());
                stash.push(v);
            }),
            _ => {
                let all: Vec<T> = values.collect();
                for v in all {
                    items.push(v.rec());
                    stash.push(v);
                }
            }
        }
        if items.len() != announced {
            end_ok = false;
        }
        return Res::Chunk {
            begin,
            announced,
            items,
            len_ok,
            end_ok,
            fully_consumed: true,
            tail,
        };
    }
    let want = take.min(announced);
    let mut items: Vec<ItemRec> = Vec::with_capacity(want.min(64));
    let mut got = 0usize;
    while got < want {
        match values.next() {
            Some(v) => {
                got += 1;
                items.push(v.rec());
                stash.push(v);
                if values.len() != announced - got {
                    len_ok = false;
                }
            }
            None => break,
        }
    }
    let fully = take >= announced;
    if fully {
        // the chunk must be exhausted exactly after `announced` items
        if got != announced {
            end_ok = false;
        } else if let Some(extra) = values.next() {
            end_ok = false;
            items.push(extra.rec());
            stash.push(extra);
        }
        drop(values);
    } else {
        let rem = announced - got;
        match rest_mode {
            1 => {
                // beyond the end: nothing comes back, everything left is the chunk's to drop
                if let Some(v) = values.nth(rem + (begin & 1)) {
                    end_ok = false;
                    stash.push(v);
                }
                if values.len() != 0 || values.next().is_some() {
                    len_ok = false;
                }
            }
            2 | 5 => {
                let j = (begin.wrapping_mul(7).wrapping_add(got).wrapping_add(3)) % rem;
                let r = if rest_mode == 2 {
                    let r = values.nth(j);
                    if values.len() != rem - j - 1 {
                        len_ok = false;
                    }
                    r
                } else {
                    let mut s = values.skip(j);
                    let r = s.next();
                    if s.count() != rem - j - 1 {
                        len_ok = false;
                    }
                    r
                };
                match r {
                    Some(v) => {
                        tail.push((got + j, v.rec()));
                        stash.push(v);
                    }
                    None => end_ok = false,
                }
            }
            3 => {
                if values.count() != rem {
                    len_ok = false;
                }
            }
            4 => match values.last() {
                Some(v) => {
                    tail.push((announced - 1, v.rec()));
                    stash.push(v);
                }
                None => end_ok = false,
            },
            6 => {
                let mut n = 0usize;
                for (i, v) in values.step_by(2).enumerate() {
                    tail.push((got + 2 * i, v.rec()));
                    stash.push(v);
                    n += 1;
                }
                if n != (rem + 1) / 2 {
                    end_ok = false;
                }
            }
            7 => {
                let mut n = 0usize;
                values.for_each(|v| {
                    tail.push((got + n, v.rec()));
                    stash.push(v);
                    n += 1;
                });
                if n != rem {
                    end_ok = false;
                }
            }
            _ => drop(values),
        }
    }
    Res::Chunk {
        begin,
        announced,
        items,
        len_ok,
        end_ok,
        fully_consumed: fully,
        tail,
    }
}

fn has_rec(h: HasMore) -> HasRec {
    match h {
        HasMore::Yes(n) => HasRec::Yes(n),
        HasMore::Maybe => HasRec::Maybe,
        HasMore::No => HasRec::No,
    }
}

struct FoldAcc {
    sum: u64,
    xor: u64,
    max: u64,
    count: u64,
}

/// Runs `ops` as thread `tid`. Returns true if every operation was executed (no panic stopped it).
/// `bound` limits drain loops (a source of `len` elements never needs more pulls than that).
pub fn run_thread<I>(it: &I, tid: usize, ops: &[Op], len: usize, stash: &mut Vec<I::Item>) -> bool
where
    I: ConcurrentIter + AtomicIter<<I as ConcurrentIter>::Item>,
    I::Item: Elem,
{
    let bound: usize = len.saturating_mul(2).saturating_add(4200);
    // type of the buffered iterator cannot be named (private module): let inference do it
    let mut buf = if std::hint::black_box(false) {
        Some((0usize, it.buffered_iter(1)))
    } else {
        None
    };

    for (op_idx, op) in ops.iter().enumerate() {
        let outcome = catch_unwind(AssertUnwindSafe(|| {
            macro_rules! timed {
                ($tag:expr, $body:expr) => {{
                    hooks::op_begin(tid);
                    let res: Res = $body;
                    let (c, r) = hooks::op_end(tid);
                    let is_end = matches!(res, Res::End);
                    rec(tid, op_idx, $tag, c, r, res);
                    is_end
                }};
            }
            macro_rules! visit {
                ($count:ident, $idx:expr, $v:ident) => {{
                    hooks::yield_pt();
                    $count += 1;
                    if $count > bound {
                        std::panic::panic_any(RUNAWAY);
                    }
                    hooks::fault_point(FaultSite::Closure);
                    rec(
                        tid,
                        op_idx,
                        Tag::Visit,
                        UNTIMED,
                        UNTIMED,
                        Res::One {
                            idx: $idx,
                            item: $v.rec(),
                        },
                    );
                    stash.push($v);
                }};
            }
            match *op {
                Op::Next => {
                    timed!(Tag::Next, match it.next() {
                        Some(v) => {
                            let r = v.rec();
                            stash.push(v);
                            Res::One { idx: None, item: r }
                        }
                        None => Res::End,
                    });
                }
                Op::NextIdVal => {
                    timed!(Tag::NextIdVal, match it.next_id_and_value() {
                        Some(x) => {
                            let r = x.value.rec();
                            stash.push(x.value);
                            Res::One {
                                idx: Some(x.idx),
                                item: r,
                            }
                        }
                        None => Res::End,
                    });
                }
                Op::Chunk { n, take } => {
                    timed!(Tag::Chunk { n }, match it.next_chunk(n) {
                        Some(c) => consume_values(c.begin_idx, c.values, take, stash),
                        None => Res::End,
                    });
                }
                Op::BufNew { n } => {
                    buf = None;
                    buf = Some((n, it.buffered_iter(n)));
                }
                Op::BufNext { take } => {
                    if let Some((n, b)) = buf.as_mut() {
                        let n = *n;
                        timed!(Tag::BufNext { n }, match b.next() {
                            Some(c) => consume_values(c.begin_idx, c.values, take, stash),
                            None => Res::End,
                        });
                    }
                }
                Op::Len => {
                    timed!(Tag::Len, Res::Len(it.try_get_len()));
                }
                Op::HasMore => {
                    timed!(Tag::HasMore, Res::Has(has_rec(it.has_more())));
                }
                Op::Skip => {
                    timed!(Tag::Skip, {
                        it.skip_to_end();
                        Res::Unit
                    });
                }
                Op::ValuesLoop { max } => {
                    let mut vals = it.values();
                    for _ in 0..max {
                        let end = timed!(Tag::Next, match vals.next() {
                            Some(v) => {
                                let r = v.rec();
                                stash.push(v);
                                Res::One { idx: None, item: r }
                            }
                            None => Res::End,
                        });
                        if end {
                            break;
                        }
                    }
                }
                Op::IdsValuesLoop { max } => {
                    let mut vals = it.ids_and_values();
                    for _ in 0..max {
                        let end = timed!(Tag::NextIdVal, match vals.next() {
                            Some((i, v)) => {
                                let r = v.rec();
                                stash.push(v);
                                Res::One {
                                    idx: Some(i),
                                    item: r,
                                }
                            }
                            None => Res::End,
                        });
                        if end {
                            break;
                        }
                    }
                }
                Op::Drain(how) => match how {
                    How::Next | How::Values => {
                        let mut k = 0usize;
                        let mut vals = it.values();
                        loop {
                            let end = timed!(
                                Tag::Next,
                                match if matches!(how, How::Next) {
                                    it.next()
                                } else {
                                    vals.next()
                                } {
                                    Some(v) => {
                                        let r = v.rec();
                                        stash.push(v);
                                        Res::One { idx: None, item: r }
                                    }
                                    None => Res::End,
                                }
                            );
                            k += 1;
                            if end {
                                break;
                            }
                            if k > bound {
                                rec(tid, op_idx, Tag::Next, UNTIMED, UNTIMED, Res::Runaway);
                                break;
                            }
                        }
                    }
                    How::NextIdVal | How::IdsValues => {
                        let mut k = 0usize;
                        let mut vals = it.ids_and_values();
                        loop {
                            let end = timed!(
                                Tag::NextIdVal,
                                match if matches!(how, How::NextIdVal) {
                                    it.next_id_and_value().map(|x| (x.idx, x.value))
                                } else {
                                    vals.next()
                                } {
                                    Some((i, v)) => {
                                        let r = v.rec();
                                        stash.push(v);
                                        Res::One {
                                            idx: Some(i),
                                            item: r,
                                        }
                                    }
                                    None => Res::End,
                                }
                            );
                            k += 1;
                            if end {
                                break;
                            }
                            if k > bound {
                                rec(tid, op_idx, Tag::NextIdVal, UNTIMED, UNTIMED, Res::Runaway);
                                break;
                            }
                        }
                    }
                    How::Chunk(n) => {
                        let mut k = 0usize;
                        loop {
                            let end = timed!(Tag::Chunk { n }, match it.next_chunk(n) {
                                Some(c) => consume_values(c.begin_idx, c.values, usize::MAX, stash),
                                None => Res::End,
                            });
                            k += 1;
                            if end {
                                break;
                            }
                            if k > bound {
                                rec(tid, op_idx, Tag::Chunk { n }, UNTIMED, UNTIMED, Res::Runaway);
                                break;
                            }
                        }
                    }
                    How::Buf(n) => {
                        let mut k = 0usize;
                        let mut b = it.buffered_iter(n);
                        loop {
                            let end = timed!(Tag::BufNext { n }, match b.next() {
                                Some(c) => consume_values(c.begin_idx, c.values, usize::MAX, stash),
                                None => Res::End,
                            });
                            k += 1;
                            if end {
                                break;
                            }
                            if k > bound {
                                rec(tid, op_idx, Tag::BufNext { n }, UNTIMED, UNTIMED, Res::Runaway);
                                break;
                            }
                        }
                    }
                    How::ForEach(n) => {
                        let mut count = 0usize;
                        timed!(Tag::CompositeDone, {
                            it.for_each(n, |v| visit!(count, None, v));
                            Res::Unit
                        });
                    }
                    How::EnumForEach(n) => {
                        let mut count = 0usize;
                        timed!(Tag::CompositeDone, {
                            it.enumerate_for_each(n, |i, v| visit!(count, Some(i), v));
                            Res::Unit
                        });
                    }
                    How::Fold(n) => {
                        let mut count = 0usize;
                        let mut done = false;
                        timed!(Tag::FoldResult, {
                            let acc = it.fold(
                                n,
                                FoldAcc {
                                    sum: 0,
                                    xor: 0,
                                    max: 0,
                                    count: 0,
                                },
                                |mut acc, v| {
                                    let val = v.rec().val;
                                    visit!(count, None, v);
                                    let h = crate::case::mix(0x51ed, val);
                                    acc.sum = acc.sum.wrapping_add(h);
                                    acc.xor ^= h;
                                    acc.max = acc.max.max(h);
                                    acc.count += 1;
                                    acc
                                },
                            );
                            done = true;
                            Res::Fold {
                                sum: acc.sum,
                                xor: acc.xor,
                                max: acc.max,
                                count: acc.count,
                            }
                        });
                        if done {
                            rec(tid, op_idx, Tag::CompositeDone, UNTIMED, UNTIMED, Res::Unit);
                        }
                    }
                },
                Op::UnwindPull { k } => {
                    // a drop guard that keeps pulling while its thread unwinds from an unrelated panic
                    struct PullOnDrop<'x, J: ConcurrentIter>
                    where
                        J::Item: Elem,
                    {
                        it: &'x J,
                        k: usize,
                        tid: usize,
                        op_idx: usize,
                        stash: &'x mut Vec<J::Item>,
                    }
                    impl<'x, J: ConcurrentIter> Drop for PullOnDrop<'x, J>
                    where
                        J::Item: Elem,
                    {
                        fn drop(&mut self) {
                            for _ in 0..self.k {
                                hooks::op_begin(self.tid);
                                // the pull itself may panic (injected fault in the wrapped iterator or a clone):
                                // a destructor that catches it is legal while its thread is already unwinding
                                let it = self.it;
                                let res = match catch_unwind(AssertUnwindSafe(|| it.next())) {
                                    Ok(Some(v)) => {
                                        let r = v.rec();
                                        self.stash.push(v);
                                        Res::One { idx: None, item: r }
                                    }
                                    Ok(None) => Res::End,
                                    Err(p) => {
                                        hooks::panic_end();
                                        let msg = match p.downcast_ref::<&str>() {
                                            Some(s) if *s == INJECTED => INJECTED.to_string(),
                                            _ => panic_msg(&p),
                                        };
                                        Res::Panicked(msg)
                                    }
                                };
                                let (c, r) = hooks::op_end(self.tid);
                                let end = matches!(res, Res::End | Res::Panicked(_));
                                rec(self.tid, self.op_idx, Tag::Next, c, r, res);
                                if end {
                                    break;
                                }
                            }
                        }
                    }
                    let _guard = PullOnDrop {
                        it,
                        k,
                        tid,
                        op_idx,
                        stash: &mut *stash,
                    };
                    std::panic::panic_any(USER_PANIC);
                }
                // ---------------- safe low-level calls ----------------
                Op::LlGet { idx } => {
                    timed!(Tag::LowLevel, match AtomicIter::get(it, idx) {
                        Some(v) => {
                            let r = v.rec();
                            stash.push(v);
                            Res::One {
                                idx: Some(idx),
                                item: r,
                            }
                        }
                        None => Res::End,
                    });
                }
                Op::LlFetchOne => {
                    timed!(Tag::LowLevel, match AtomicIter::fetch_one(it) {
                        Some(x) => {
                            let r = x.value.rec();
                            stash.push(x.value);
                            Res::One {
                                idx: Some(x.idx),
                                item: r,
                            }
                        }
                        None => Res::End,
                    });
                }
                Op::LlFetchN { n, take } => {
                    timed!(Tag::LowLevel, match AtomicIter::fetch_n(it, n) {
                        Some(c) => consume_values(c.begin_idx, c.values, take, stash),
                        None => Res::End,
                    });
                }
                Op::LlProgress { n } => {
                    timed!(
                        Tag::LowLevel,
                        Res::LlIdx(AtomicIter::progress_and_get_begin_idx(it, n))
                    );
                }
                Op::LlEarlyExit => {
                    timed!(Tag::LowLevel, {
                        AtomicIter::early_exit(it);
                        Res::Unit
                    });
                }
                Op::LlStore { v } => {
                    timed!(Tag::LowLevel, {
                        AtomicIter::counter(it).store(v);
                        Res::Unit
                    });
                }
                Op::LlFetchAdd { n } => {
                    timed!(
                        Tag::LowLevel,
                        Res::LlIdx(Some(AtomicIter::counter(it).fetch_and_add(n)))
                    );
                }
            }
        }));
        if let Err(p) = outcome {
            if hooks::tearing_down() {
                // forced unwind of a suspended coroutine during teardown: keep unwinding
                std::panic::resume_unwind(p);
            }
            hooks::panic_end();
            let (c, r) = hooks::op_end(tid);
            if matches!(p.downcast_ref::<&str>(), Some(s) if *s == USER_PANIC) {
                // the expected end of an UnwindPull operation: the thread ends like a panicking scoped thread
                return false;
            }
            let msg = match p.downcast_ref::<&str>() {
                Some(s) if *s == INJECTED => INJECTED.to_string(),
                Some(s) if *s == RUNAWAY => RUNAWAY.to_string(),
                _ => panic_msg(&p),
            };
            let tag = match op {
                Op::Next | Op::ValuesLoop { .. } => Tag::Next,
                Op::NextIdVal | Op::IdsValuesLoop { .. } => Tag::NextIdVal,
                Op::Chunk { n, .. } => Tag::Chunk { n: *n },
                Op::BufNext { .. } | Op::BufNew { .. } => Tag::BufNext {
                    n: buf.as_ref().map(|b| b.0).unwrap_or(0),
                },
                Op::Len => Tag::Len,
                Op::HasMore => Tag::HasMore,
                Op::Skip => Tag::Skip,
                Op::Drain(_) | Op::UnwindPull { .. } => Tag::CompositeDone,
                _ => Tag::LowLevel,
            };
            rec(tid, op_idx, tag, c, r, Res::Panicked(msg));
            if KEEP_GOING.with(|k| k.get()) {
                // the caller caught the panic and goes on using the same iterator and buffered handle
                continue;
            }
            // a panicking thread ends here, like a thread of `std::thread::scope` would
            return false;
        }
    }
    true
}

/// Owner-side end of the case: drop the iterator or convert it back and consume the remainder.
pub fn terminal<I>(it: I, t: Terminal, len: usize, stash: &mut Vec<I::Item>) -> TermRes
where
    I: ConcurrentIter,
    I::Item: Elem,
{
    let r = catch_unwind(AssertUnwindSafe(|| match t {
        Terminal::Drop => {
            drop(it);
            TermRes::Dropped
        }
        Terminal::IntoSeq { take } => {
            let mut s = it.into_seq_iter();
            let mut items = vec![];
            let mut total = None;
            let bound = len.saturating_add(64);
            loop {
                if items.len() > bound {
                    break;
                }
                // a remainder that claims more items than the source ever had is pulled until that is on record
                if items.len() >= take && s.size_hint().0 <= bound {
                    break;
                }
                match s.next() {
                    Some(v) => {
                        items.push(v.rec());
                        stash.push(v);
                    }
                    None => {
                        total = Some(items.len());
                        break;
                    }
                }
            }
            if items.len() > bound {
                // longer than the source: a violation for the remainder oracle; dropping an iterator that believes
                // to hold up to usize::MAX zero-sized elements would never return
                std::mem::forget(s);
            } else {
                drop(s);
            }
            TermRes::Seq { items, total }
        }
    }));
    match r {
        Ok(x) => x,
        Err(p) => {
            if hooks::tearing_down() {
                std::panic::resume_unwind(p);
            }
            hooks::panic_end();
            TermRes::Panicked(panic_msg(&p))
        }
    }
}
