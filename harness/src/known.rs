//! Known findings (`/verif/KNOWN_FINDINGS.txt`). Read-only at run time.
//!
//! Line formats:
//!   open: property=<id> sig=<signature> <what fails>
//!   fixed: property=<id> <commit> <what failed>
//! Only `open` lines have an effect: a violation whose signature equals an open signature is reported
//! as `KNOWN-FINDING` and the search continues; any other violation is a VIOLATION.

pub fn verif_root() -> std::path::PathBuf {
    if let Ok(p) = std::env::var("VERIF_ROOT") {
        return p.into();
    }
    "/verif".into()
}

pub fn open_findings(prop: &str) -> Vec<(String, String)> {
    let path = verif_root().join("KNOWN_FINDINGS.txt");
    let Ok(text) = std::fs::read_to_string(path) else {
        return vec![];
    };
    let mut out = vec![];
    for line in text.lines() {
        let line = line.trim();
        let Some(rest) = line.strip_prefix("open:") else {
            continue;
        };
        let mut p = None;
        let mut sig = None;
        let mut desc = vec![];
        for tok in rest.split_whitespace() {
            if let Some(x) = tok.strip_prefix("property=") {
                if p.is_none() {
                    p = Some(x.to_string());
                    continue;
                }
            }
            if let Some(x) = tok.strip_prefix("sig=") {
                if sig.is_none() {
                    sig = Some(x.to_string());
                    continue;
                }
            }
            desc.push(tok);
        }
        if let (Some(p), Some(sig)) = (p, sig) {
            if p == prop {
                out.push((sig, desc.join(" ")));
            }
        }
    }
    out
}
