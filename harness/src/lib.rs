//! Verification harness for orx-concurrent-iter (see /verif/DESIGN.md). Library part: engines, oracles,
//! generators; used by the `vharness` binary and by the cargo-fuzz targets.
#![allow(dead_code, clippy::all)]

pub mod alloc;
pub mod c16;
pub mod case;
pub mod driver;
pub mod elem;
pub mod evidence;
pub mod gen;
pub mod history;
pub mod hooks;
pub mod interp;
pub mod known;
pub mod lockstep;
pub mod multi;
pub mod nested;
pub mod oracle;
pub mod props;
pub mod real;
pub mod replay;
#[cfg(orx_concurrent_iter_verif)]
pub mod sched;
#[cfg(orx_concurrent_iter_verif)]
pub mod props_sched;
pub mod seq;
pub mod sources;
pub mod twin;
pub mod zsthuge;
pub mod typeprobe;
pub mod fuzzdec;
pub mod fuzzrun;
