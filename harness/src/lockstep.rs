//! C13: an adaptor (`cloned()` / `copied()`) and its underlying reference-yielding iterator are driven
//! by the same operation list and compared operation by operation.

use crate::case::*;
use crate::driver::Outcome;
use crate::elem::ItemRec;
use crate::history::{History, Res, Tag, TermRes};
use crate::oracle::{kind_class, Violation};

fn bad(what: &'static str, detail: String) -> Result<(), Violation> {
    Err(Violation { what, detail })
}

fn same_item(a: &ItemRec, u: &ItemRec) -> bool {
    a.val == u.val && a.id == u.id
}

pub fn compare(ha: &History, hu: &History) -> Result<(), Violation> {
    if ha.ops.len() != hu.ops.len() {
        return bad(
            "different-history-length",
            format!("the adaptor produced {} elementary results, the underlying iterator {}", ha.ops.len(), hu.ops.len()),
        );
    }
    for (i, (a, u)) in ha.ops.iter().zip(hu.ops.iter()).enumerate() {
        let w = |s: String| format!("op #{} ({:?}, thread {}): {}", i, a.tag, a.thread, s);
        if a.tag != u.tag {
            return bad("different-op", w(format!("underlying recorded {:?}", u.tag)));
        }
        match (&a.res, &u.res) {
            // the adaptor's clone panicked inside this operation (injected fault, caught by the caller): the
            // operation itself is not compared, everything after it is
            (Res::Panicked(m), _) if m == crate::hooks::INJECTED => {}
            (Res::End, Res::End) | (Res::Unit, Res::Unit) => {}
            (Res::One { idx: ia, item: xa }, Res::One { idx: iu, item: xu }) => {
                if ia != iu {
                    return bad("index-differs", w(format!("adaptor index {:?}, underlying {:?}", ia, iu)));
                }
                if !same_item(xa, xu) {
                    return bad("element-differs", w(format!("adaptor delivered element {} ({:#x}), underlying {} ({:#x})", xa.id, xa.val, xu.id, xu.val)));
                }
                if !xa.is_clone || xa.addr != 0 {
                    return bad("not-a-clone", w("the adaptor's item is not an owned clone/copy".into()));
                }
            }
            (
                Res::Chunk { begin: ba, announced: na, items: xa, len_ok: la, end_ok: ea, tail: ta, .. },
                Res::Chunk { begin: bu, announced: nu, items: xu, len_ok: lu, end_ok: eu, tail: tu, .. },
            ) => {
                if ta.len() != tu.len() || ta.iter().zip(tu.iter()).any(|((oa, x), (ou, y))| oa != ou || !same_item(x, y) || !x.is_clone) {
                    return bad("element-differs", w("items obtained through nth / last / skip / step_by on the rest of a chunk differ".into()));
                }
                if ba != bu || na != nu {
                    return bad("chunk-boundary-differs", w(format!("adaptor chunk [{}, +{}), underlying [{}, +{})", ba, na, bu, nu)));
                }
                if la != lu || ea != eu || xa.len() != xu.len() {
                    return bad("chunk-length-differs", w("remaining lengths of the chunk differ".into()));
                }
                for (x, y) in xa.iter().zip(xu.iter()) {
                    if !same_item(x, y) {
                        return bad("element-differs", w(format!("chunk item differs: adaptor {} underlying {}", x.id, y.id)));
                    }
                    if !x.is_clone {
                        return bad("not-a-clone", w("the adaptor's chunk item is not an owned clone/copy".into()));
                    }
                }
            }
            (Res::Len(x), Res::Len(y)) => {
                if x != y {
                    return bad("length-differs", w(format!("try_get_len: adaptor {:?}, underlying {:?}", x, y)));
                }
            }
            (Res::Has(x), Res::Has(y)) => {
                if x != y {
                    return bad("length-differs", w(format!("has_more: adaptor {:?}, underlying {:?}", x, y)));
                }
            }
            (Res::Fold { count: ca, sum: sa, .. }, Res::Fold { count: cu, sum: su, .. }) => {
                if ca != cu || sa != su {
                    return bad("element-differs", w("fold results differ".into()));
                }
            }
            (Res::Panicked(x), Res::Panicked(y)) if x == y => {}
            (x, y) => {
                return bad(
                    "end-or-skip-differs",
                    w(format!("adaptor returned {}, underlying {}", crate::oracle::short_res(x), crate::oracle::short_res(y))),
                )
            }
        }
    }
    match (&ha.term, &hu.term) {
        (TermRes::Dropped, TermRes::Dropped) => {}
        (TermRes::Seq { items: xa, total: ta }, TermRes::Seq { items: xu, total: tu }) => {
            if ta != tu || xa.len() != xu.len() || xa.iter().zip(xu.iter()).any(|(x, y)| !same_item(x, y)) {
                return bad("remainder-differs", format!("into_seq_iter: adaptor yields {} items (total {:?}), underlying {} (total {:?}) or different elements", xa.len(), ta, xu.len(), tu));
            }
            if xa.iter().any(|x| !x.is_clone) {
                return bad("not-a-clone", "into_seq_iter of the adaptor yields items that are not clones".into());
            }
        }
        (x, y) => return bad("remainder-differs", format!("terminal: adaptor {:?}, underlying {:?}", x, y)),
    }
    if !ha.source_intact {
        return bad("source-modified", "the source collection was modified, moved from or dropped by the adaptor".into());
    }
    // every clone is dropped exactly once, every source element exactly once (by its owner, at the very end)
    for i in 0..ha.info.len {
        let c = ha.ledger_end.clones.get(i).copied().unwrap_or(0);
        let cd = ha.ledger_end.clone_drops.get(i).copied().unwrap_or(0);
        if c != cd {
            return bad("clone-ledger", format!("element {}: {} clones made, {} clones dropped", i, c, cd));
        }
        if matches!(ha.case.kind, Kind::ClonedSlice | Kind::ClonedVecRef | Kind::ClonedArrRef | Kind::ClonedIterRef) {
            let d = ha.ledger_end.drops.get(i).copied().unwrap_or(0);
            if d != 1 {
                return bad("source-modified", format!("source element {} was dropped {} times", i, d));
            }
        }
    }
    Ok(())
}

pub fn eval_c13(case: &Case) -> Outcome {
    let ha = crate::seq::run_seq(case);
    let mut ucase = case.clone();
    ucase.kind = case.kind.underlying();
    ucase.fault = None;
    let hu = crate::seq::run_seq(&ucase);
    let verdict = compare(&ha, &hu);
    let has = |f: &dyn Fn(&Tag) -> bool| ha.ops.iter().any(|o| f(&o.tag));
    let chunk = has(&|t| matches!(t, Tag::Chunk { .. }));
    let buf = has(&|t| matches!(t, Tag::BufNext { .. }));
    let query = has(&|t| matches!(t, Tag::Len | Tag::HasMore));
    let skip = has(&|t| matches!(t, Tag::Skip));
    let seq = matches!(case.terminal, Terminal::IntoSeq { .. });
    let mut classes = vec![kind_class(case.kind), case.kind.name()];
    if chunk {
        classes.push("chunk");
    }
    if buf {
        classes.push("buffered-chunk");
    }
    if query {
        classes.push("length-query");
    }
    if skip {
        classes.push("skip");
    }
    if seq {
        classes.push("into_seq");
    }
    Outcome {
        verdict,
        sig_ctx: kind_class(case.kind).to_string(),
        nontrivial: chunk && buf && query && (skip || seq),
        classes,
        inconclusive: false,
        evals: 2,
        dfs: None,
        witness: None,
    }
}
