use vharness::{alloc, driver, evidence, known, props, replay, twin, typeprobe};

#[global_allocator]
static GLOBAL: alloc::Counting = alloc::Counting;

fn usage() -> ! {
    eprintln!("usage: vharness check <ID> <quick|thorough> | vharness replay <ID> <file>");
    std::process::exit(2)
}

fn main() {
    // panics are data here (caught and recorded); keep stderr quiet unless asked
    if std::env::var("VERIF_PANIC_TRACE").is_err() {
        std::panic::set_hook(Box::new(|_| {}));
    }
    let args: Vec<String> = std::env::args().collect();
    if args.len() >= 2 && args[1] == "child" {
        twin::child_main();
        return;
    }
    if args.len() >= 4 && args[1] == "decode" {
        // turn a libFuzzer crash input of fuzz_seq into a replay file (printed to stdout)
        let data = std::fs::read(&args[3]).unwrap_or_default();
        match vharness::fuzzrun::seq_case(&args[2], &data) {
            Some(c) => {
                let mut j = c.to_json();
                j["engine"] = serde_json::json!("seq");
                j["note"] = serde_json::json!("decoded from a libFuzzer crash input (sanitizer report); reproduce with the fuzz target");
                println!("{}", serde_json::to_string_pretty(&j).unwrap_or_default());
            }
            None => println!("{{}}"),
        }
        return;
    }
    if args.len() >= 5 && args[1] == "fuzzmerge" {
        std::process::exit(evidence::fuzz_merge(&args[2], &args[3], &args[4]));
    }
    if args.len() < 4 {
        usage();
    }
    let seed: u64 = std::env::var("VERIF_SEED")
        .ok()
        .and_then(|s| s.parse().ok())
        .unwrap_or(1);
    match args[1].as_str() {
        "check" => {
            let prop = args[2].as_str();
            // the tier named on the command line wins; VERIF_TIER is used when the command does not name one
            let tier = match args[3].as_str() {
                "quick" | "thorough" => args[3].clone(),
                _ => std::env::var("VERIF_TIER").unwrap_or_else(|_| "quick".into()),
            };
            let tier = if tier == "thorough" { "thorough" } else { "quick" };
            driver::watchdog::start(prop.to_string());
            let mut ctx = driver::Ctx::new(prop, tier, seed);
            match props::check(&mut ctx) {
                Some(meta) => {
                    let code = evidence::finish(&mut ctx, meta);
                    std::process::exit(code);
                }
                None => {
                    eprintln!("property {} is not served by this binary", prop);
                    std::process::exit(2);
                }
            }
        }
        "replay" => {
            let prop = args[2].as_str();
            let path = std::path::Path::new(&args[3]);
            if path.extension().and_then(|x| x.to_str()) == Some("rs") {
                // a generated client program that must be rejected by the compiler
                let Some((rlib, deps)) = typeprobe::find_rlib() else {
                    eprintln!("cannot find the crate's rlib");
                    std::process::exit(2);
                };
                let src = std::fs::read_to_string(path).unwrap_or_default();
                let dir = known::verif_root().join("harness").join("target").join("probes");
                let _ = std::fs::create_dir_all(&dir);
                let p = typeprobe::Program { name: "replay".into(), class: "replay", src, expect: typeprobe::Expect::Reject(&[]), twin: None };
                let r = typeprobe::compile(&p, &rlib, &deps, &dir);
                if r.ok {
                    println!("the program compiles although it must be rejected");
                    println!("VIOLATION property={} replay={}", prop, path.display());
                    std::process::exit(1);
                }
                println!("replay {}: rejected by the compiler ({:?}); property {} holds on this program", path.display(), r.codes, prop);
                std::process::exit(0);
            }
            let (case, v) = match replay::load(path) {
                Ok(x) => x,
                Err(e) => {
                    eprintln!("{}", e);
                    std::process::exit(2);
                }
            };
            let engine = v.get("engine").and_then(|x| x.as_str()).unwrap_or("seq");
            let Some(eval) = props::eval_for(prop, engine) else {
                eprintln!("no evaluator for {} / {}", prop, engine);
                std::process::exit(2);
            };
            let out = eval(&case);
            match out.verdict {
                Ok(()) => {
                    println!("replay {}: property {} holds on this case", path.display(), prop);
                    std::process::exit(0);
                }
                Err(v) => {
                    let sig = driver::signature(prop, &v, &out.sig_ctx);
                    println!("violation [{}]: {}", sig, v.detail);
                    let open = known::open_findings(prop);
                    if let Some(o) = open.iter().find(|o| o.0 == sig) {
                        println!("KNOWN-FINDING: property={} sig={} {}", prop, sig, o.1);
                        std::process::exit(0);
                    }
                    println!("VIOLATION property={} replay={}", prop, path.display());
                    std::process::exit(1);
                }
            }
        }
        _ => usage(),
    }
}
