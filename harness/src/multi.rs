//! C19: several concurrent iterators (and clones of them) over one collection, driven by one
//! interleaved history. Encoded in a `Case`: `threads[k]` is the operation list of step k and
//! `sched[k]` selects what step k does: < 200 pull on iterator (b mod live), 200..228 create a new
//! iterator, >= 228 clone iterator (b mod live).

use crate::case::*;
use crate::driver::Outcome;
use crate::elem::{thread_ledger, Elem, Tracked};
use crate::history::{History, LedgerSnap, OpRec, SchedStats, SrcInfo, TermRes, Vals};
use crate::hooks;
use crate::interp::run_thread;
use crate::oracle::{self, kind_class, Violation};
use crate::sources::{snapshot, val_of};
use crate::with_array;
use orx_concurrent_iter::iter::atomic_iter::AtomicIter;
use orx_concurrent_iter::{ConcurrentIter, ConcurrentIterable, IntoConcurrentIter};

pub const NEW_FROM: u8 = 200;
pub const CLONE_FROM: u8 = 228;

struct Run {
    lineages: Vec<Vec<OpRec>>,
    clones_after_progress: usize,
    n_iters: usize,
}

fn drive<I>(case: &Case, len: usize, new: &dyn Fn() -> I) -> Run
where
    I: ConcurrentIter + AtomicIter<<I as ConcurrentIter>::Item> + Clone,
    I::Item: Elem,
{
    let mut its: Vec<I> = vec![];
    let mut lineages: Vec<Vec<OpRec>> = vec![];
    let mut stash: Vec<I::Item> = vec![];
    let mut clones_after_progress = 0;
    for (k, ops) in case.threads.iter().enumerate() {
        let b = case.sched.get(k).copied().unwrap_or(0);
        if its.is_empty() || (b >= NEW_FROM && b < CLONE_FROM) {
            its.push(new());
            lineages.push(vec![]);
            if its.len() > 1 || ops.is_empty() {
                continue;
            }
        } else if b >= CLONE_FROM {
            let j = (b as usize) % its.len();
            let c = its[j].clone();
            its.push(c);
            let l = lineages[j].clone();
            if l.iter().any(|o| o.delivered_any()) {
                clones_after_progress += 1;
            }
            lineages.push(l);
            continue;
        }
        let j = (b as usize) % its.len();
        hooks::reset_env(None);
        run_thread(&its[j], 0, ops, len, &mut stash);
        lineages[j].extend(hooks::take_records());
    }
    let n_iters = its.len();
    drop(stash);
    drop(its);
    Run {
        lineages,
        clones_after_progress,
        n_iters,
    }
}

fn judge(case: &Case, info: &SrcInfo, run: &Run) -> Result<(), Violation> {
    for (j, ops) in run.lineages.iter().enumerate() {
        let mut c = Case::simple(case.kind, case.len, vec![vec![]]);
        c.range_start = case.range_start;
        c.range_end = case.range_end;
        c.vseed = case.vseed;
        let h = History {
            case: c,
            info: info.clone(),
            ops: ops.clone(),
            term: TermRes::Dropped,
            ledger_mid: LedgerSnap::default(),
            ledger_end: LedgerSnap::default(),
            held_ids: vec![],
            source_intact: true,
            sched: SchedStats::default(),
            threads_completed: vec![true],
        };
        let tag = |v: Violation| Violation {
            what: v.what,
            detail: format!("iterator #{} (own cursor, clones start at the original's position): {}", j, v.detail),
        };
        if let Some(m) = oracle::unexpected_panic(&h) {
            return Err(Violation { what: "panic", detail: m });
        }
        oracle::c04_linearizable(&h).map_err(tag)?;
        oracle::c02_index_fidelity(&h).map_err(tag)?;
        oracle::c03_chunk_contract(&h).map_err(tag)?;
        oracle::c11_quiescent(&h).map_err(tag)?;
    }
    Ok(())
}

fn bad(what: &'static str, detail: String) -> Result<(), Violation> {
    Err(Violation { what, detail })
}

fn slice_like(case: &Case) -> (Result<(), Violation>, Run) {
    let led = thread_ledger();
    led.reset(case.len);
    let n = case.len;
    let mk_info = |addrs: Vec<usize>| SrcInfo {
        kind: case.kind,
        len: n,
        vals: Vals::Table((0..n).map(|i| val_of(case, i)).collect()),
        addrs,
        has_ids: true,
    };
    let check_after = |data: &[Tracked]| -> Result<(), Violation> {
        for (i, t) in data.iter().enumerate() {
            if t.id != i as u32 || t.val != val_of(case, i) || t.is_clone {
                return bad("source-modified", format!("element {} of the collection changed", i));
            }
        }
        let s = snapshot(led, n);
        if s.drops.iter().any(|d| *d != 0) || s.clones.iter().any(|d| *d != 0) {
            return bad("source-modified", "an element of the collection was dropped or cloned by a non-consuming iterator".into());
        }
        Ok(())
    };
    let (verdict, run);
    match case.kind {
        Kind::ArrRef => {
            (verdict, run) = with_array!(n, |i| Tracked::new(i as u32, val_of(case, i), led), |a| {
                let info = mk_info(a.iter().map(|x| x as *const Tracked as usize).collect());
                let run = drive(case, n, &|| ConcurrentIterable::con_iter(&a));
                let v = judge(case, &info, &run).and_then(|_| check_after(&a));
                drop(a);
                (v, run)
            });
        }
        _ => {
            let mut v: Vec<Tracked> = (0..n).map(|i| Tracked::new(i as u32, val_of(case, i), led)).collect();
            let info = mk_info(v.iter().map(|x| x as *const Tracked as usize).collect());
            let r = {
                let s: &[Tracked] = v.as_slice();
                match case.kind {
                    Kind::Slice => drive(case, n, &|| IntoConcurrentIter::into_con_iter(s)),
                    Kind::SliceCon => drive(case, n, &|| ConcurrentIterable::con_iter(&s)),
                    _ => drive(case, n, &|| ConcurrentIterable::con_iter(&v)),
                }
            };
            let mut ver = judge(case, &info, &r).and_then(|_| check_after(&v));
            // the collection is fully usable afterwards: mutate it, then drop it
            if n >= 2 {
                v.swap(0, n - 1);
            }
            v.push(Tracked::new(n as u32, 0, led));
            let extra = v.pop();
            drop(extra);
            drop(v);
            if ver.is_ok() {
                let s = snapshot(led, n);
                if let Some(i) = s.drops.iter().position(|d| *d != 1) {
                    ver = bad("source-modified", format!("after dropping the collection element {} was dropped {} times", i, s.drops[i]));
                }
            }
            verdict = ver;
            run = r;
        }
    }
    (verdict, run)
}

fn range_like(case: &Case) -> (Result<(), Violation>, Run) {
    let (s, e) = crate::sources::range_bounds(case);
    let r = s..e;
    let info = SrcInfo {
        kind: case.kind,
        len: e.saturating_sub(s),
        vals: Vals::RangeFrom(s),
        addrs: vec![],
        has_ids: false,
    };
    let run = if case.kind == Kind::Range {
        drive(case, info.len, &|| ConcurrentIterable::con_iter(&r))
    } else {
        drive(case, info.len, &|| IntoConcurrentIter::into_con_iter(r.clone()))
    };
    let mut v = judge(case, &info, &run);
    if v.is_ok() && r != (s..e) {
        v = bad("source-modified", "the range changed".into());
    }
    (v, run)
}

pub fn eval_c19(case: &Case) -> Outcome {
    if crate::zsthuge::is_huge_zst(case) {
        return crate::zsthuge::eval_c19_huge(case);
    }
    let (verdict, run) = if case.kind.is_range() { range_like(case) } else { slice_like(case) };
    // cursor of each iterator = total requested positions of its lineage
    let cursors: std::collections::HashSet<u128> = run
        .lineages
        .iter()
        .map(|l| l.iter().filter(|o| o.is_pull()).map(|o| o.requested() as u128).sum())
        .collect();
    let mut classes = vec![kind_class(case.kind)];
    classes.push(match run.n_iters {
        0 | 1 => "iterators=1",
        2 => "iterators=2",
        _ => "iterators>=3",
    });
    if run.clones_after_progress > 0 {
        classes.push("clone-after-progress");
    }
    if cursors.len() >= 2 {
        classes.push("different-positions");
    }
    Outcome {
        verdict,
        sig_ctx: kind_class(case.kind).to_string(),
        nontrivial: run.n_iters >= 2 && cursors.len() >= 2 && run.clones_after_progress >= 1,
        classes,
        inconclusive: false,
        evals: 1,
        dfs: None,
        witness: None,
    }
}

/// Strategy: steps with an action byte each.
pub fn strategy(thorough: bool) -> proptest::strategy::BoxedStrategy<Case> {
    use proptest::prelude::*;
    let kinds = [Kind::Slice, Kind::SliceCon, Kind::VecRef, Kind::ArrRef, Kind::Range, Kind::RangeInto];
    let mut cfg = crate::gen::GenCfg::base(&kinds);
    cfg.max_len = if thorough { 40 } else { 16 };
    cfg.min_threads = 2;
    cfg.max_threads = if thorough { 24 } else { 14 };
    cfg.max_ops = 3;
    cfg.w_len = 2;
    cfg.w_has = 1;
    cfg.w_skip = 1;
    cfg.w_drain_elem = 1;
    let steps = cfg.max_threads;
    let action = prop_oneof![
        6 => 0u8..NEW_FROM,
        1 => NEW_FROM..CLONE_FROM,
        2 => CLONE_FROM..=255u8,
    ];
    (crate::gen::case_strategy(&cfg), proptest::collection::vec(action, steps))
        .prop_map(|(mut c, acts)| {
            c.sched = acts[..c.threads.len()].to_vec();
            c
        })
        .boxed()
}
