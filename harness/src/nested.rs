//! C11 on *nested* concurrent iterators: `inner.values().into_con_iter()` wraps the crate's own
//! sequential view of a concurrent iterator into another concurrent iterator, while `inner` stays
//! usable. The outer iterator derives its length from the view's `size_hint`; elements pulled from
//! `inner` directly never reach it, so the only truthful answers of the outer iterator are those
//! that still hold after such side pulls (None / Maybe on the unchanged tree).
//!
//! Encoding in a `Case`: `kind` is the inner kind (Slice, VecRef, Range, VecOwn), `threads[0]` are
//! operations on the outer iterator, `threads[1]` side pulls on the inner one, `sched` interleaves
//! them (byte < 128: next outer operation, else next inner operation). At the end (quiescent, no
//! further side pull) the outer iterator is queried and then drained.
//!
//! Oracle: Some(n) / Yes(n) from the final query = number of elements the drain delivers; No only
//! if it delivers nothing; over the whole history every element of the source is delivered exactly
//! once (by the outer or by a side pull).

use crate::case::*;
use crate::driver::Outcome;
use crate::oracle::Violation;
use orx_concurrent_iter::{ConcurrentIter, HasMore, IntoConcurrentIter, IterIntoConcurrentIter};

fn bad<T>(what: &'static str, detail: String) -> Result<T, Violation> {
    Err(Violation { what, detail })
}

struct Stats {
    outer_pulled: usize,
    side_pulled: usize,
    drained: usize,
    final_len: Option<usize>,
}

fn exec<I: ConcurrentIter>(it: &I, op: &Op, val: &dyn Fn(I::Item) -> u64, got: &mut Vec<u64>) {
    match *op {
        Op::Next => {
            if let Some(v) = it.next() {
                got.push(val(v));
            }
        }
        Op::NextIdVal => {
            if let Some(x) = it.next_id_and_value() {
                got.push(val(x.value));
            }
        }
        Op::Chunk { n, .. } => {
            if let Some(c) = it.next_chunk(n.min(1 << 20)) {
                for v in c.values {
                    got.push(val(v));
                }
            }
        }
        Op::Len => {
            let _ = it.try_get_len();
        }
        Op::HasMore => {
            let _ = it.has_more();
        }
        _ => {}
    }
}

fn run<I>(case: &Case, inner: I, len: usize, val: &(dyn Fn(I::Item) -> u64 + Sync)) -> Result<Stats, Violation>
where
    I: ConcurrentIter,
    I::Item: Send + Sync,
{
    let outer = inner.values().into_con_iter();
    let empty = vec![];
    let ops_o = case.threads.first().unwrap_or(&empty);
    let ops_i = case.threads.get(1).unwrap_or(&empty);
    let (mut io, mut ii) = (0usize, 0usize);
    let mut got_o: Vec<u64> = vec![];
    let mut got_i: Vec<u64> = vec![];
    let mut k = 0usize;
    while io < ops_o.len() || ii < ops_i.len() {
        let b = case.sched.get(k).copied().unwrap_or(0);
        k += 1;
        let take_outer = if io >= ops_o.len() {
            false
        } else if ii >= ops_i.len() {
            true
        } else {
            b < 128
        };
        if take_outer {
            exec(&outer, &ops_o[io], val, &mut got_o);
            io += 1;
        } else {
            exec(&inner, &ops_i[ii], val, &mut got_i);
            ii += 1;
        }
    }
    let (outer_pulled, side_pulled) = (got_o.len(), got_i.len());
    // quiescent, and no side pull follows: the answers must be what the drain delivers
    let q = outer.try_get_len();
    let h = outer.has_more();
    let mut drained = 0usize;
    while let Some(v) = outer.next() {
        got_o.push(val(v));
        drained += 1;
        if drained > len + 8 {
            return bad("no-end", "the outer iterator keeps delivering".into());
        }
    }
    if let Some(n) = q {
        if n != drained {
            return bad("wrong-length", format!("try_get_len of the outer iterator reported {} remaining elements at a quiescent point; later pulls delivered exactly {} ({} had been pulled from the inner iterator directly)", n, drained, side_pulled));
        }
    }
    match h {
        HasMore::Yes(n) if n != drained || n == 0 => {
            return bad("wrong-length", format!("has_more of the outer iterator reported Yes({}); later pulls delivered exactly {}", n, drained));
        }
        HasMore::No if drained > 0 => {
            return bad("no-not-definitive", format!("has_more of the outer iterator reported No; later pulls delivered {} elements", drained));
        }
        _ => {}
    }
    if inner.next().is_some() {
        return bad("lost", "the outer iterator reported the end although the inner iterator still had an element".into());
    }
    if inner.try_get_len() != Some(0) {
        return bad("wrong-length", format!("try_get_len of the exhausted inner iterator is {:?}", inner.try_get_len()));
    }
    let mut all: Vec<u64> = got_o.iter().chain(got_i.iter()).copied().collect();
    all.sort_unstable();
    let n_all = all.len();
    all.dedup();
    if all.len() != n_all {
        return bad("duplicate", "an element was delivered twice (once through the outer iterator and once directly)".into());
    }
    if n_all != len {
        return bad("lost", format!("{} of {} elements were delivered in total", n_all, len));
    }
    Ok(Stats {
        outer_pulled,
        side_pulled,
        drained,
        final_len: q,
    })
}

pub fn eval_c11_nested(case: &Case) -> Outcome {
    let n = case.len;
    let data: Vec<u64> = (0..n).map(|i| crate::sources::val_of(case, i)).collect();
    let r = std::panic::catch_unwind(std::panic::AssertUnwindSafe(|| match case.kind {
        Kind::Slice => run(case, IntoConcurrentIter::into_con_iter(data.as_slice()), n, &|v: &u64| *v),
        Kind::VecOwn => run(case, IntoConcurrentIter::into_con_iter(data.clone()), n, &|v: u64| v),
        Kind::Range | Kind::RangeInto => {
            let s = case.range_start.min(1 << 40);
            run(case, IntoConcurrentIter::into_con_iter(s..s + n), n, &|v: usize| v as u64)
        }
        _ => run(case, orx_concurrent_iter::ConcurrentIterable::con_iter(&data), n, &|v: &u64| *v),
    }));
    let (verdict, stats) = match r {
        Ok(Ok(s)) => (Ok(()), Some(s)),
        Ok(Err(v)) => (Err(v), None),
        Err(p) => (
            Err(Violation {
                what: "panic",
                detail: format!("an operation on a nested iterator panicked: {}", crate::interp::panic_msg(&p)),
            }),
            None,
        ),
    };
    let mut classes = vec!["nested", crate::oracle::kind_class(case.kind)];
    let mut nontrivial = false;
    if let Some(s) = &stats {
        if s.side_pulled > 0 {
            classes.push("side-pulls");
        }
        if s.final_len.is_some() {
            classes.push("outer-reports-exact-length");
        }
        nontrivial = s.side_pulled >= 1 && s.outer_pulled + s.drained >= 1;
    }
    Outcome {
        verdict,
        sig_ctx: "nested".to_string(),
        nontrivial,
        classes,
        inconclusive: false,
        evals: 1,
        dfs: None,
        witness: None,
    }
}

pub fn cfg(thorough: bool) -> crate::gen::GenCfg {
    let mut cfg = crate::gen::GenCfg::base(&[Kind::Slice, Kind::VecRef, Kind::VecOwn, Kind::Range]);
    cfg.layouts = vec![Layout::Tracked];
    cfg.max_len = if thorough { 40 } else { 16 };
    cfg.min_threads = 2;
    cfg.max_threads = 2;
    cfg.max_ops = 5;
    cfg.w_loops = 0;
    cfg.w_drain_elem = 0;
    cfg.w_bufnew = 0;
    cfg.w_bufnext = 0;
    cfg.w_len = 2;
    cfg.w_has = 1;
    cfg.odd_ranges = false;
    cfg.symmetric = false;
    cfg.long_spins = false;
    // the schedule bytes interleave the operations on the outer and on the inner iterator
    cfg.sched_len = 12;
    cfg
}
