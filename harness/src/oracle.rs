//! Oracles: functions of a recorded `History` that decide one property each.
//! Every oracle is derived from the property text and the sequential-cursor reference model
//! (DESIGN §1), never from the implementation.

use crate::case::{Kind, Layout, Op, Terminal};
use crate::elem::ItemRec;
use crate::history::{HasRec, History, OpRec, Res, SrcInfo, Tag, TermRes};
use crate::hooks::INJECTED;
use crate::interp::UNTIMED;
use std::collections::HashSet;

#[derive(Clone, Debug)]
pub struct Violation {
    /// failure kind, the first component of a known-finding signature
    pub what: &'static str,
    pub detail: String,
}

pub type Verdict = Result<(), Violation>;

fn bad(what: &'static str, detail: String) -> Verdict {
    Err(Violation { what, detail })
}

/// One delivered (or covered) position.
#[derive(Clone, Debug)]
pub struct Delivery {
    pub op: usize,
    pub thread: usize,
    /// position the crate claimed for the item (index, or chunk begin + offset)
    pub claimed: Option<usize>,
    /// item as seen by the caller; None for the unconsumed part of a chunk
    pub item: Option<ItemRec>,
    pub call: u64,
    pub ret: u64,
}

pub fn distinct_vals(info: &SrcInfo, h: &History) -> bool {
    h.case.layout != Layout::Zst || !h.case.kind.consuming() || info.len <= 1
}

/// All deliveries of the history, in record order.
pub fn deliveries(h: &History) -> Vec<Delivery> {
    let mut out = vec![];
    for (i, o) in h.ops.iter().enumerate() {
        match &o.res {
            Res::One { idx, item } => out.push(Delivery {
                op: i,
                thread: o.thread,
                claimed: *idx,
                item: Some(*item),
                call: o.call,
                ret: o.ret,
            }),
            Res::Chunk {
                begin,
                announced,
                items,
                tail,
                ..
            } => {
                for (j, it) in items.iter().enumerate() {
                    out.push(Delivery {
                        op: i,
                        thread: o.thread,
                        claimed: Some(begin.wrapping_add(j)),
                        item: Some(*it),
                        call: o.call,
                        ret: o.ret,
                    });
                }
                // the unconsumed rest is delivered too (it was the caller's, dropped with the chunk);
                // bounded so that a huge announced length (C16) stays cheap
                let rest = announced.saturating_sub(items.len());
                for j in 0..rest.min(100_000) {
                    out.push(Delivery {
                        op: i,
                        thread: o.thread,
                        claimed: Some(begin.wrapping_add(items.len() + j)),
                        item: tail.iter().find(|(off, _)| *off == items.len() + j).map(|(_, it)| *it),
                        call: o.call,
                        ret: o.ret,
                    });
                }
            }
            _ => {}
        }
    }
    out
}

/// position of a delivery: from the value when the item was seen (values are distinct), else claimed
fn true_pos(info: &SrcInfo, d: &Delivery, distinct: bool) -> Result<usize, Violation> {
    match (&d.item, distinct) {
        (Some(it), true) => match info.pos_of_val(it.val) {
            Some(p) => Ok(p),
            None => Err(Violation {
                what: "invented-element",
                detail: format!(
                    "op #{} (thread {}) delivered value {:#x} which is not an element of the source",
                    d.op, d.thread, it.val
                ),
            }),
        },
        _ => match d.claimed {
            Some(p) => Ok(p),
            None => Ok(usize::MAX), // zero-sized element through next(): counted only
        },
    }
}

fn has_fault_panic(h: &History) -> bool {
    h.ops
        .iter()
        .any(|o| matches!(&o.res, Res::Panicked(m) if m == INJECTED))
}

/// any panic that is not the injected one
pub fn unexpected_panic(h: &History) -> Option<String> {
    for (i, o) in h.ops.iter().enumerate() {
        if let Res::Panicked(m) = &o.res {
            if m != INJECTED {
                return Some(format!("op #{} {:?} (thread {}) panicked: {}", i, o.tag, o.thread, m));
            }
        }
    }
    if let TermRes::Panicked(m) = &h.term {
        if m != INJECTED {
            return Some(format!("terminal panicked: {}", m));
        }
    }
    None
}

fn runaway(h: &History) -> Option<String> {
    for (i, o) in h.ops.iter().enumerate() {
        if matches!(o.res, Res::Runaway) {
            return Some(format!("op #{} {:?} (thread {}) pulled more often than twice the source length without seeing the end", i, o.tag, o.thread));
        }
        if let Res::Panicked(m) = &o.res {
            if m == crate::hooks::RUNAWAY {
                return Some(format!("op #{} {:?}: closure invoked more often than twice the source length", i, o.tag));
            }
        }
    }
    None
}

// ------------------------------------------------------------------------------------------------
// C01

/// Exactly-once: applicable when every thread drains to the end, no skip, no fault.
pub fn c01_exactly_once(h: &History) -> Verdict {
    if let Some(m) = runaway(h) {
        return bad("no-end", m);
    }
    if let Some(m) = unexpected_panic(h) {
        return bad("panic", m);
    }
    let info = &h.info;
    let distinct = distinct_vals(info, h);
    let ds = deliveries(h);
    let mut count = vec![0u32; info.len];
    let mut uncounted = 0usize;
    for d in &ds {
        let p = true_pos(info, d, distinct)?;
        if p == usize::MAX {
            uncounted += 1;
            continue;
        }
        if p >= info.len {
            return bad(
                "out-of-range",
                format!("op #{} delivered position {} of a source of length {}", d.op, p, info.len),
            );
        }
        count[p] += 1;
        if count[p] > 1 {
            return bad(
                "duplicate",
                format!("position {} delivered twice (second time by op #{} on thread {})", p, d.op, d.thread),
            );
        }
    }
    if uncounted > 0 {
        let total: usize = count.iter().map(|c| *c as usize).sum::<usize>() + uncounted;
        if total != info.len {
            return bad("lost-or-dup", format!("{} deliveries for {} elements", total, info.len));
        }
        return Ok(());
    }
    if let Some(p) = count.iter().position(|c| *c == 0) {
        return bad(
            "lost",
            format!("position {} was never delivered although every thread observed the end", p),
        );
    }
    Ok(())
}

/// No position delivered twice, nothing invented (applies to every history, also with skip / faults).
pub fn no_duplicates(h: &History) -> Verdict {
    let info = &h.info;
    let distinct = distinct_vals(info, h);
    let mut seen: HashSet<usize> = HashSet::new();
    for d in deliveries(h) {
        let p = true_pos(info, &d, distinct)?;
        if p == usize::MAX {
            continue;
        }
        if p >= info.len {
            return bad(
                "out-of-range",
                format!("op #{} delivered position {} of a source of length {}", d.op, p, info.len),
            );
        }
        if !seen.insert(p) {
            return bad(
                "duplicate",
                format!("position {} delivered twice (second time by op #{} on thread {})", p, d.op, d.thread),
            );
        }
    }
    Ok(())
}

// ------------------------------------------------------------------------------------------------
// C02

pub fn c02_index_fidelity(h: &History) -> Verdict {
    let info = &h.info;
    for d in deliveries(h) {
        let (Some(p), Some(it)) = (d.claimed, d.item) else {
            continue;
        };
        match info.val_at(p) {
            Some(v) if v == it.val => {}
            other => {
                return bad(
                    "wrong-index",
                    format!(
                        "op #{} (thread {}) reported index {} with value {:#x}; the source holds {:?} there (the value lives at position {:?})",
                        d.op, d.thread, p, it.val, other.map(|v| format!("{:#x}", v)), info.pos_of_val(it.val)
                    ),
                )
            }
        }
        if info.has_ids && it.id != u32::MAX && it.id as usize != p {
            return bad(
                "wrong-identity",
                format!("op #{} reported index {} for element id {}", d.op, p, it.id),
            );
        }
        if h.case.kind.yields_refs() {
            if info.addrs.get(p).copied() != Some(it.addr) {
                return bad(
                    "wrong-address",
                    format!("op #{} index {}: reference does not point at the source element", d.op, p),
                );
            }
        }
    }
    Ok(())
}

// ------------------------------------------------------------------------------------------------
// C03

pub fn c03_chunk_contract(h: &History) -> Verdict {
    let info = &h.info;
    let distinct = distinct_vals(info, h);
    for (i, o) in h.ops.iter().enumerate() {
        let n = match o.tag {
            Tag::Chunk { n } | Tag::BufNext { n } => n,
            _ => continue,
        };
        if n == 0 {
            continue; // C16's domain
        }
        if let Res::Chunk {
            begin,
            announced,
            items,
            len_ok,
            end_ok,
            fully_consumed,
            tail,
        } = &o.res
        {
            let w = |s: String| format!("op #{} {:?} on thread {}: {}", i, o.tag, o.thread, s);
            if *announced == 0 {
                return bad("empty-chunk", w("returned an empty chunk instead of reporting the end".into()));
            }
            if *announced > n {
                return bad("chunk-too-long", w(format!("announced {} items for chunk size {}", announced, n)));
            }
            if !*len_ok {
                return bad("len-trajectory", w("len() did not decrease by one per item".into()));
            }
            if !*fully_consumed && !*end_ok {
                return bad(
                    "rest-of-chunk",
                    w("nth / last / skip / step_by / count on the rest of the chunk did not behave like the default Iterator methods (an item too many or too few)".into()),
                );
            }
            if distinct {
                for (off, it) in tail.iter() {
                    if info.val_at(begin.wrapping_add(*off)) != Some(it.val) {
                        return bad(
                            "not-consecutive",
                            w(format!("the item obtained at offset {} of the chunk starting at {} is not the source element at position {}", off, begin, begin.wrapping_add(*off))),
                        );
                    }
                }
            }
            if *fully_consumed && (!*end_ok || items.len() != *announced) {
                return bad(
                    "announced-vs-yielded",
                    w(format!("announced {} items but yielded {}{}", announced, items.len(), if *end_ok { "" } else { " (or more)" })),
                );
            }
            match begin.checked_add(*announced) {
                Some(e) if e <= info.len => {
                    if *announced < n && e != info.len {
                        return bad(
                            "short-chunk",
                            w(format!("chunk [{}, {}) is shorter than {} but does not end at the last element ({})", begin, e, n, info.len)),
                        );
                    }
                }
                _ => return bad("chunk-out-of-range", w(format!("chunk [{}, {}+{}) exceeds the source length {}", begin, begin, announced, info.len))),
            }
            if distinct {
                for (j, it) in items.iter().enumerate() {
                    if info.val_at(begin + j) != Some(it.val) {
                        return bad(
                            "not-consecutive",
                            w(format!("item {} of the chunk starting at {} is not the source element at position {}", j, begin, begin + j)),
                        );
                    }
                }
            }
        }
    }
    Ok(())
}

// ------------------------------------------------------------------------------------------------
// C04: linearizability against the sequential cursor + cheap invariants

fn precedes(a: &OpRec, b: &OpRec) -> bool {
    a.ret != UNTIMED && b.call != UNTIMED && a.ret < b.call
}

/// (b) cheap invariants: per-thread increasing positions, real-time order respected.
pub fn c04_invariants(h: &History) -> Verdict {
    let info = &h.info;
    let distinct = distinct_vals(info, h);
    if !distinct {
        return Ok(());
    }
    // per op: (min pos, max pos)
    let mut span: Vec<Option<(usize, usize)>> = vec![None; h.ops.len()];
    for d in deliveries(h) {
        let p = true_pos(info, &d, distinct)?;
        let s = &mut span[d.op];
        *s = Some(match *s {
            None => (p, p),
            Some((a, b)) => (a.min(p), b.max(p)),
        });
    }
    // per-thread strictly increasing (record order is program order within a thread)
    let nthreads = h.case.threads.len();
    let mut last: Vec<Option<usize>> = vec![None; nthreads.max(1)];
    for (i, o) in h.ops.iter().enumerate() {
        if let Some((lo, hi)) = span[i] {
            if let Some(prev) = last[o.thread] {
                if lo <= prev {
                    return bad(
                        "thread-order",
                        format!("thread {} received position {} (op #{}) after position {}", o.thread, lo, i, prev),
                    );
                }
            }
            last[o.thread] = Some(hi);
        }
    }
    // real-time order between timed pulls
    let timed: Vec<usize> = (0..h.ops.len())
        .filter(|&i| h.ops[i].is_pull() && h.ops[i].call != UNTIMED && span[i].is_some())
        .collect();
    for &a in &timed {
        for &b in &timed {
            if a != b && precedes(&h.ops[a], &h.ops[b]) {
                let (_, amax) = span[a].expect("span");
                let (bmin, _) = span[b].expect("span");
                if amax >= bmin {
                    return bad(
                        "real-time-order",
                        format!(
                            "op #{} returned (step {}) before op #{} was called (step {}), yet it received position {} >= {}",
                            a, h.ops[a].ret, b, h.ops[b].call, amax, bmin
                        ),
                    );
                }
            }
        }
    }
    Ok(())
}

/// Result expected by the model for a pull of `n` positions at cursor `pos`.
fn model_accepts(info: &SrcInfo, distinct: bool, o: &OpRec, pos: u128, skipped: bool, cancellable: bool) -> bool {
    let n = o.requested();
    let len = info.len as u128;
    let ends = skipped || pos >= len || n == 0;
    match &o.res {
        // `cancellable`: a skip_to_end was called before this pull returned. The pull may then have reserved
        // its positions (moving the cursor, visible to others) and still report the end because the skip
        // cancelled the reservation: "pulls already in flight MAY still deliver the positions they had reserved".
        Res::End => ends || cancellable,
        Res::One { idx, item } => {
            if ends {
                return false;
            }
            let b = pos as usize;
            if let Some(i) = idx {
                if *i != b {
                    return false;
                }
            }
            !distinct || info.val_at(b) == Some(item.val)
        }
        Res::Chunk {
            begin,
            announced,
            items,
            ..
        } => {
            if ends {
                return false;
            }
            let b = pos as usize;
            let e = (pos + n as u128).min(len) as usize;
            *begin == b
                && *announced == e - b
                && (!distinct
                    || items
                        .iter()
                        .enumerate()
                        .all(|(j, it)| info.val_at(b + j) == Some(it.val)))
        }
        _ => false,
    }
}

/// (a) Wing–Gong style search: is there a total order of the timed pulls and skips that respects
/// real time and in which every result is what the sequential cursor returns?
/// Returns Ok(None) if the history is not eligible (composites hide pulls), Ok(Some(states)) if linearizable.
pub fn c04_linearizable(h: &History) -> Result<Option<u64>, Violation> {
    let info = &h.info;
    let distinct = distinct_vals(info, h);
    // eligibility: every delivery must come from a timed elementary op
    for o in &h.ops {
        match o.tag {
            Tag::Visit | Tag::CompositeDone | Tag::FoldResult | Tag::LowLevel => return Ok(None),
            _ => {}
        }
        if matches!(o.res, Res::Panicked(_) | Res::Runaway) {
            return Ok(None);
        }
    }
    let nthreads = h.case.threads.len().max(1);
    let mut per: Vec<Vec<usize>> = vec![vec![]; nthreads];
    for (i, o) in h.ops.iter().enumerate() {
        if o.is_pull() || o.tag == Tag::Skip {
            if o.call == UNTIMED {
                return Ok(None);
            }
            per[o.thread].push(i);
        }
    }
    let total: usize = per.iter().map(|v| v.len()).sum();
    let first_skip_call: Option<u64> = h.ops.iter().filter(|o| o.tag == Tag::Skip && o.call != UNTIMED).map(|o| o.call).min();
    // iterative DFS over per-thread prefixes; model state is a function of the prefix vector
    let mut failed: HashSet<Vec<u16>> = HashSet::new();
    let mut states: u64 = 0;
    // stack of (prefix, pos, skipped, next thread to try)
    let mut stack: Vec<(Vec<u16>, u128, bool, usize)> = vec![(vec![0; nthreads], 0, false, 0)];
    while let Some((prefix, pos, skipped, next_t)) = stack.pop() {
        let done: usize = prefix.iter().map(|x| *x as usize).sum();
        if done == total {
            return Ok(Some(states));
        }
        if next_t >= nthreads {
            failed.insert(prefix);
            continue;
        }
        // re-push with the next candidate thread
        stack.push((prefix.clone(), pos, skipped, next_t + 1));
        let t = next_t;
        let k = prefix[t] as usize;
        if k >= per[t].len() {
            continue;
        }
        let oi = per[t][k];
        let o = &h.ops[oi];
        // minimal: no unlinearized op of another thread returned before o was called
        let mut minimal = true;
        for u in 0..nthreads {
            if u == t {
                continue;
            }
            let ku = prefix[u] as usize;
            if ku < per[u].len() && precedes(&h.ops[per[u][ku]], o) {
                minimal = false;
                break;
            }
        }
        if !minimal {
            continue;
        }
        let (npos, nskipped) = if o.tag == Tag::Skip {
            (pos, true)
        } else {
            let cancellable = first_skip_call.map_or(false, |c| c < o.ret);
            if !model_accepts(info, distinct, o, pos, skipped, cancellable) {
                continue;
            }
            (pos + o.requested() as u128, skipped)
        };
        let mut np = prefix.clone();
        np[t] += 1;
        if failed.contains(&np) {
            continue;
        }
        states += 1;
        stack.push((np, npos, nskipped, 0));
    }
    // describe the failure: replay greedily to find the first op no order can explain
    let mut detail = String::from("no linearization of the recorded history matches the sequential cursor; ops: ");
    for (i, o) in h.ops.iter().enumerate().take(40) {
        detail.push_str(&format!("[#{} t{} {:?} {}..{} {}] ", i, o.thread, o.tag, o.call, o.ret, short_res(&o.res)));
    }
    Err(Violation {
        what: "not-linearizable",
        detail,
    })
}

pub fn short_res(r: &Res) -> String {
    match r {
        Res::End => "End".into(),
        Res::One { idx, item } => format!("One(idx={:?}, id={})", idx, item.id as i64),
        Res::Chunk {
            begin, announced, ..
        } => format!("Chunk(begin={}, len={})", begin, announced),
        Res::Len(l) => format!("Len({:?})", l),
        Res::Has(x) => format!("{:?}", x),
        Res::Unit => "()".into(),
        Res::Fold { count, .. } => format!("Fold(count={})", count),
        Res::LlIdx(i) => format!("Idx({:?})", i),
        Res::Panicked(m) => format!("Panicked({})", m),
        Res::Runaway => "Runaway".into(),
    }
}

/// At quiescence (end of the history) the covered positions form a gap-free prefix (no skip required).
pub fn prefix_at_quiescence(h: &History) -> Result<usize, Violation> {
    let info = &h.info;
    let distinct = distinct_vals(info, h);
    let mut seen = vec![false; info.len];
    let mut count = 0usize;
    for d in deliveries(h) {
        let p = true_pos(info, &d, distinct)?;
        if p == usize::MAX {
            count += 1;
            continue;
        }
        if p < info.len && !seen[p] {
            seen[p] = true;
            count += 1;
        }
    }
    if !distinct {
        return Ok(count);
    }
    let k = seen.iter().take_while(|x| **x).count();
    if seen[k..].iter().any(|x| *x) {
        let hole = k;
        return Err(Violation {
            what: "gap",
            detail: format!(
                "with no pull in flight the delivered positions are not a prefix: position {} is missing while a later one was delivered",
                hole
            ),
        });
    }
    Ok(k)
}

// ------------------------------------------------------------------------------------------------
// C05

pub fn c05_end_is_permanent(h: &History) -> Verdict {
    // earliest return of an operation that observed the end
    let mut first_end: Option<(u64, usize)> = None;
    for (i, o) in h.ops.iter().enumerate() {
        let observed = match o.tag {
            Tag::Next | Tag::NextIdVal | Tag::Chunk { .. } | Tag::BufNext { .. } => {
                matches!(o.res, Res::End) && o.requested() > 0
            }
            Tag::CompositeDone => o.ret != UNTIMED && matches!(o.res, Res::Unit),
            _ => false,
        };
        if observed && o.ret != UNTIMED && first_end.map_or(true, |(r, _)| o.ret < r) {
            first_end = Some((o.ret, i));
        }
    }
    let Some((r, by)) = first_end else {
        return Ok(());
    };
    for (i, o) in h.ops.iter().enumerate() {
        if o.call == UNTIMED || o.call <= r {
            continue;
        }
        match (&o.tag, &o.res) {
            (_, Res::One { .. }) | (_, Res::Chunk { .. }) if o.is_pull() => {
                return bad(
                    "revived",
                    format!(
                        "op #{} {:?} (thread {}, called at step {}) delivered {} after op #{} had reported the end at step {}",
                        i, o.tag, o.thread, o.call, short_res(&o.res), by, r
                    ),
                )
            }
            (Tag::Len, Res::Len(Some(k))) if *k > 0 => {
                return bad(
                    "positive-length-after-end",
                    format!("op #{} try_get_len() = Some({}) after op #{} had reported the end", i, k, by),
                )
            }
            (Tag::HasMore, Res::Has(HasRec::Yes(k))) => {
                return bad(
                    "positive-length-after-end",
                    format!("op #{} has_more() = Yes({}) after op #{} had reported the end", i, k, by),
                )
            }
            _ => {}
        }
    }
    Ok(())
}

// ------------------------------------------------------------------------------------------------
// C06

pub fn c06_skip(h: &History) -> Verdict {
    let mut first_skip: Option<(u64, usize)> = None;
    for (i, o) in h.ops.iter().enumerate() {
        if o.tag == Tag::Skip && matches!(o.res, Res::Unit) && o.ret != UNTIMED {
            if first_skip.map_or(true, |(r, _)| o.ret < r) {
                first_skip = Some((o.ret, i));
            }
        }
    }
    if let Some((r, by)) = first_skip {
        for (i, o) in h.ops.iter().enumerate() {
            if o.call == UNTIMED || o.call <= r {
                continue;
            }
            if o.is_pull() && o.delivered_any() {
                return bad(
                    "revive-after-skip",
                    format!(
                        "op #{} {:?} (thread {}, called at step {}) delivered {} although skip_to_end (op #{}) had returned at step {}",
                        i, o.tag, o.thread, o.call, short_res(&o.res), by, r
                    ),
                );
            }
            if let (Tag::HasMore, Res::Has(x)) = (&o.tag, &o.res) {
                if *x != HasRec::No {
                    return bad(
                        "has-more-after-skip",
                        format!("op #{} has_more() = {:?} after skip_to_end (op #{}) had returned", i, x, by),
                    );
                }
            }
            if let (Tag::Len, Res::Len(Some(k))) = (&o.tag, &o.res) {
                if *k > 0 {
                    return bad(
                        "has-more-after-skip",
                        format!("op #{} try_get_len() = Some({}) after skip_to_end (op #{}) had returned", i, k, by),
                    );
                }
            }
        }
    }
    // "the skip never causes a position to be delivered twice, out of order, or with a wrong index":
    // only histories that contain a skip are this property's business
    if h.ops.iter().any(|o| o.tag == Tag::Skip) {
        no_duplicates(h)?;
        c04_invariants(h)?;
        c02_index_fidelity(h)?;
    }
    Ok(())
}

// ------------------------------------------------------------------------------------------------
// C07

pub fn c07_exclusive_ordered(h: &History) -> Verdict {
    if h.sched.overlap {
        return bad(
            "overlap",
            "two threads were inside the wrapped iterator's next() at the same time".into(),
        );
    }
    if let Some(r) = &h.sched.race {
        if !h.sched.unmodelled_sync {
            return bad("race", r.clone());
        }
    }
    Ok(())
}

// ------------------------------------------------------------------------------------------------
// C08

pub fn c08_exactly_once_ownership(h: &History) -> Verdict {
    let kind = h.case.kind;
    if !kind.consuming() {
        return Ok(());
    }
    let n = h.info.len;
    if h.case.layout == Layout::Zst {
        if h.ledger_end.zst_drops != n as u64 {
            return bad(
                "zst-drop-count",
                format!("{} zero-sized elements were consumed but {} destructor calls were observed", n, h.ledger_end.zst_drops),
            );
        }
        return Ok(());
    }
    if h.ledger_end.wild != 0 {
        return bad("wild-drop", "an element with an impossible identity was dropped (memory corruption)".into());
    }
    // delivered to at most one caller
    let mut owners: Vec<u32> = vec![0; n];
    for id in &h.held_ids {
        if (*id as usize) < n {
            owners[*id as usize] += 1;
            if owners[*id as usize] > 1 {
                return bad("two-owners", format!("element {} was moved out to two callers", id));
            }
        } else {
            return bad("wild-drop", format!("a caller received an element with impossible id {}", id));
        }
    }
    for i in 0..n {
        let held = owners[i] > 0;
        let mid = h.ledger_mid.drops.get(i).copied().unwrap_or(0);
        let end = h.ledger_end.drops.get(i).copied().unwrap_or(0);
        if held && mid != 0 {
            return bad(
                "dropped-while-owned",
                format!("element {} was destroyed by the iterator machinery {} time(s) although it had been moved out to a caller", i, mid),
            );
        }
        if !held && mid == 0 {
            return bad(
                "never-dropped",
                format!("element {} was neither moved out nor destroyed when the iterator (and its remainder) were dropped", i),
            );
        }
        if !held && mid > 1 {
            return bad("double-drop", format!("element {} was destroyed {} times by the iterator machinery", i, mid));
        }
        if end != 1 {
            return bad(
                if end == 0 { "never-dropped" } else { "double-drop" },
                format!("element {} was destroyed {} times in total", i, end),
            );
        }
    }
    Ok(())
}

// ------------------------------------------------------------------------------------------------
// C09

pub fn c09_progress(h: &History) -> Verdict {
    if h.sched.hang {
        return bad(
            "hang",
            "a state was reached in which every unfinished thread spins on unchanged memory (no thread can make progress)".into(),
        );
    }
    if h.case.freeze.is_some() && h.sched.froze && !h.case.kind.wrapped() {
        if !h.sched.others_finished_while_frozen {
            return bad(
                "blocked-by-frozen-thread",
                "with one thread suspended the other threads could not complete their operations".into(),
            );
        }
        if h.sched.spin_episodes_nonfrozen > 0 {
            return bad(
                "wait-on-known-size",
                format!("{} spin-wait episode(s) observed on a known-size source while one thread was suspended", h.sched.spin_episodes_nonfrozen),
            );
        }
    }
    if let Some(m) = runaway(h) {
        return bad("no-end", m);
    }
    Ok(())
}

// ------------------------------------------------------------------------------------------------
// C10

pub fn c10_into_seq(h: &History) -> Verdict {
    let info = &h.info;
    let (items, total) = match &h.term {
        TermRes::Seq { items, total } => (items, total),
        TermRes::Panicked(m) => return bad("panic", format!("into_seq_iter panicked: {}", m)),
        TermRes::Dropped => return Ok(()),
    };
    let distinct = distinct_vals(info, h);
    let skipped = h.ops.iter().any(|o| o.tag == Tag::Skip);
    let p = prefix_at_quiescence(h)?;
    if !distinct {
        // zero-sized elements: only counts can be compared
        if let Some(t) = total {
            if !skipped && p + t != info.len {
                return bad("remainder-count", format!("{} delivered + {} in the remainder != {}", p, t, info.len));
            }
        }
        return Ok(());
    }
    // positions of the remainder items
    let mut pos = vec![];
    for it in items {
        match info.pos_of_val(it.val) {
            Some(q) => pos.push(q),
            None => return bad("invented-element", format!("the remainder yields {:#x} which is not a source element", it.val)),
        }
    }
    for (j, it) in items.iter().enumerate() {
        if info.has_ids && it.id != u32::MAX && it.id as usize != pos[j] {
            return bad("wrong-identity", format!("remainder item {} has id {} but the value of position {}", j, it.id, pos[j]));
        }
        if h.case.kind.yields_refs() && info.addrs.get(pos[j]).copied() != Some(it.addr) {
            return bad("wrong-address", format!("remainder item {} does not point at source element {}", j, pos[j]));
        }
    }
    // the remainder yields the undelivered *elements*: an element that the iterator machinery has already
    // destroyed (or destroys again later) is not that element any more
    if h.case.kind.consuming() && info.has_ids {
        for (j, it) in items.iter().enumerate() {
            let id = it.id as usize;
            let mid = h.ledger_mid.drops.get(id).copied().unwrap_or(0);
            let end = h.ledger_end.drops.get(id).copied().unwrap_or(1);
            if mid != 0 || end != 1 {
                return bad(
                    "remainder-element-destroyed",
                    format!("remainder item {} (element {}) was destroyed {} time(s) by the iterator machinery while the caller owned it ({} destructor calls in total)", j, id, mid, end),
                );
            }
        }
    }
    for w in pos.windows(2) {
        if w[1] != w[0] + 1 {
            return bad("remainder-order", format!("the remainder is not in source order: position {} follows {}", w[1], w[0]));
        }
    }
    if !skipped {
        if let Some(first) = pos.first() {
            if *first != p {
                return bad(
                    "remainder-start",
                    format!("{} positions were delivered, but the remainder starts at position {}", p, first),
                );
            }
        }
        if let Some(t) = total {
            if p + t != info.len {
                return bad(
                    "remainder-count",
                    format!("{} delivered + {} in the remainder != source length {}", p, t, info.len),
                );
            }
        }
    } else {
        if let Some(first) = pos.first() {
            if *first < p {
                return bad("remainder-overlaps-delivered", format!("remainder starts at {} but {} positions were delivered", first, p));
            }
        }
        if let (Some(t), Some(first)) = (total, pos.first()) {
            if first + t != info.len {
                return bad("remainder-not-suffix", format!("remainder [{}, {}) after skip is not a suffix of the source", first, first + t));
            }
        }
    }
    Ok(())
}

// ------------------------------------------------------------------------------------------------
// C11

/// Quiescent part: every Len / HasMore of a *sequential* history (ops totally ordered) equals the model.
pub fn c11_quiescent(h: &History) -> Verdict {
    let info = &h.info;
    let len = info.len as u128;
    let kind = h.case.kind;
    let mut pos: u128 = 0;
    let mut skipped = false;
    let mut end_seen_by_single_or_oneshot = false;
    for (i, o) in h.ops.iter().enumerate() {
        match o.tag {
            Tag::Next | Tag::NextIdVal | Tag::Chunk { .. } | Tag::BufNext { .. } => {
                if matches!(o.res, Res::Panicked(_)) {
                    // after a panic inside a pull the cursor model no longer predicts the results; the lengths
                    // reported afterwards are compared with what the rest of the history actually delivers
                    return c11_after_panic(h, i);
                }
                let n = o.requested();
                if matches!(o.res, Res::End) && n > 0 && !matches!(o.tag, Tag::BufNext { .. }) {
                    end_seen_by_single_or_oneshot = true;
                }
                pos += n as u128;
            }
            Tag::Skip => skipped = true,
            Tag::Visit | Tag::CompositeDone | Tag::FoldResult | Tag::LowLevel => return Ok(()),
            Tag::Len | Tag::HasMore => {
                let remaining: usize = if skipped { 0 } else { len.saturating_sub(pos.min(len)) as usize };
                let must_be_zero = skipped || end_seen_by_single_or_oneshot;
                let got: Option<usize> = match &o.res {
                    Res::Len(l) => *l,
                    Res::Has(HasRec::Yes(k)) => {
                        if *k == 0 {
                            return bad("has-more-yes-zero", format!("op #{} has_more() = Yes(0)", i));
                        }
                        Some(*k)
                    }
                    Res::Has(HasRec::No) => Some(0),
                    Res::Has(HasRec::Maybe) => None,
                    _ => continue,
                };
                let what = if o.tag == Tag::Len { "try_get_len" } else { "has_more" };
                match got {
                    None => {
                        if !kind.wrapped() {
                            return bad(
                                "unknown-length-on-known-size",
                                format!("op #{} {} gives no length on a source of known size", i, what),
                            );
                        }
                        if must_be_zero {
                            return bad(
                                "not-no-after-end",
                                format!("op #{} {} does not report zero/No although the end was {}", i, what, if skipped { "forced by skip_to_end" } else { "reported by a single or one-shot pull" }),
                            );
                        }
                    }
                    Some(k) => {
                        if k != remaining {
                            return bad(
                                "wrong-length",
                                format!("op #{} {} reports {} remaining elements, later pulls can deliver exactly {}", i, what, k, remaining),
                            );
                        }
                    }
                }
            }
        }
    }
    Ok(())
}

/// Sequential history with a panic at op `at`: every later length query must equal the number of elements
/// that the rest of the history delivers, provided the history then pulls until it sees the end (no skip).
fn c11_after_panic(h: &History, at: usize) -> Verdict {
    let rest = &h.ops[at + 1..];
    if rest.iter().any(|o| o.tag == Tag::Skip || matches!(o.res, Res::Panicked(_) | Res::Runaway) || matches!(o.tag, Tag::Visit | Tag::CompositeDone | Tag::FoldResult | Tag::LowLevel)) {
        return Ok(());
    }
    let saw_end = rest.iter().any(|o| o.is_pull() && matches!(o.res, Res::End) && o.requested() > 0);
    if !saw_end {
        return Ok(());
    }
    for (j, q) in rest.iter().enumerate() {
        let reported = match &q.res {
            Res::Len(Some(k)) => *k,
            Res::Has(HasRec::Yes(k)) => *k,
            Res::Has(HasRec::No) => 0,
            _ => continue,
        };
        let mut delivered = 0usize;
        for o in &rest[j + 1..] {
            match &o.res {
                Res::One { .. } => delivered += 1,
                Res::Chunk { announced, .. } => delivered += *announced,
                _ => {}
            }
        }
        if reported != delivered {
            return bad(
                "wrong-length-after-panic",
                format!(
                    "op #{} reports {} remaining elements after a pull panicked (op #{}), but the pulls that follow deliver {} before they report the end",
                    at + 1 + j, reported, at, delivered
                ),
            );
        }
    }
    Ok(())
}

/// Racing part: lengths never increase along real time, and zero / No is definitive.
pub fn c11_racing(h: &History) -> Verdict {
    let qs: Vec<(usize, &OpRec, Option<usize>)> = h
        .ops
        .iter()
        .enumerate()
        .filter_map(|(i, o)| match &o.res {
            Res::Len(l) => Some((i, o, *l)),
            Res::Has(HasRec::Yes(k)) => Some((i, o, Some(*k))),
            Res::Has(HasRec::No) => Some((i, o, Some(0))),
            Res::Has(HasRec::Maybe) => Some((i, o, None)),
            _ => None,
        })
        .collect();
    for (i, a, la) in &qs {
        let Some(la) = la else { continue };
        for (j, b, lb) in &qs {
            let Some(lb) = lb else { continue };
            if precedes(a, b) && lb > la {
                return bad(
                    "length-increased",
                    format!("query #{} reported {} remaining, the later query #{} reported {}", i, la, j, lb),
                );
            }
        }
        if *la == 0 {
            for (j, o) in h.ops.iter().enumerate() {
                if o.is_pull() && o.call != UNTIMED && precedes(a, o) && o.delivered_any() {
                    return bad(
                        "delivery-after-no",
                        format!("query #{} answered zero/No at step {}, but op #{} (called at step {}) delivered {}", i, a.ret, j, o.call, short_res(&o.res)),
                    );
                }
            }
        }
    }
    Ok(())
}

// ------------------------------------------------------------------------------------------------
// C12

pub fn c12_for_each_fold(h: &History) -> Verdict {
    // exactly-once over closure invocations and direct pulls
    c01_exactly_once(h)?;
    c02_index_fidelity(h)?;
    // fold result equals the fold over the values the closure saw in that call
    for (i, o) in h.ops.iter().enumerate() {
        if let (Tag::FoldResult, Res::Fold { sum, xor, max, count }) = (&o.tag, &o.res) {
            let (mut s, mut x, mut m, mut c) = (0u64, 0u64, 0u64, 0u64);
            for v in h.ops.iter() {
                if v.thread == o.thread && v.op_idx == o.op_idx && v.tag == Tag::Visit {
                    if let Res::One { item, .. } = &v.res {
                        let hh = crate::case::mix(0x51ed, item.val);
                        s = s.wrapping_add(hh);
                        x ^= hh;
                        m = m.max(hh);
                        c += 1;
                    }
                }
            }
            if (s, x, m, c) != (*sum, *xor, *max, *count) {
                return bad(
                    "fold-result",
                    format!("op #{}: fold returned an accumulator over {} elements that is not the fold of the {} values passed to the closure", i, count, c),
                );
            }
        }
    }
    // combined fold over all threads = sequential fold of the elements not pulled directly
    // (elements must be identifiable by value for that: not for zero-sized elements, which are only counted)
    if distinct_vals(&h.info, h) {
        let info = &h.info;
        let mut direct = vec![false; info.len];
        let mut any_fold = false;
        let mut all_composites_fold = true;
        for d in deliveries(h) {
            let o = &h.ops[d.op];
            if o.tag != Tag::Visit {
                if let Ok(p) = true_pos(info, &d, true) {
                    if p < info.len {
                        direct[p] = true;
                    }
                }
            }
        }
        let (mut s, mut x, mut m, mut c) = (0u64, 0u64, 0u64, 0u64);
        for o in &h.ops {
            if let Res::Fold { sum, xor, max, count } = &o.res {
                any_fold = true;
                s = s.wrapping_add(*sum);
                x ^= *xor;
                m = m.max(*max);
                c += *count;
            }
        }
        for t in &h.case.threads {
            for op in t {
                if let Op::Drain(crate::case::How::ForEach(_)) | Op::Drain(crate::case::How::EnumForEach(_)) = op {
                    all_composites_fold = false;
                }
            }
        }
        if any_fold && all_composites_fold {
            let (mut es, mut ex, mut em, mut ec) = (0u64, 0u64, 0u64, 0u64);
            for p in 0..info.len {
                if !direct[p] {
                    let hh = crate::case::mix(0x51ed, info.val_at(p).unwrap_or(0));
                    es = es.wrapping_add(hh);
                    ex ^= hh;
                    em = em.max(hh);
                    ec += 1;
                }
            }
            if (s, x, m, c) != (es, ex, em, ec) {
                return bad(
                    "fold-combined",
                    format!("combining the per-thread fold results covers {} elements, the sequential fold of the elements not pulled directly covers {}", c, ec),
                );
            }
        }
    }
    // every call returns with the iterator exhausted
    c05_end_is_permanent(h)?;
    Ok(())
}

// ------------------------------------------------------------------------------------------------
// C18

pub fn c18_panic_containment(h: &History) -> Verdict {
    if h.sched.hang {
        return bad(
            "hang",
            "after the injected panic the other threads spin forever on unchanged memory".into(),
        );
    }
    if let Some(m) = unexpected_panic(h) {
        return bad("secondary-panic", m);
    }
    no_duplicates(h)?;
    c08_exactly_once_ownership(h)?;
    // other threads completed all their operations
    for (t, done) in h.threads_completed.iter().enumerate() {
        let panicked = h
            .ops
            .iter()
            .any(|o| o.thread == t && matches!(o.res, Res::Panicked(_)));
        // a thread that ends with an UnwindPull operation leaves by its own (user) panic
        let unwinds = h.case.threads.get(t).map_or(false, |ops| ops.iter().any(|o| matches!(o, Op::UnwindPull { .. })));
        if !*done && !panicked && !unwinds {
            return bad("thread-stuck", format!("thread {} did not complete its operations", t));
        }
    }
    let _ = has_fault_panic(h);
    Ok(())
}

// ------------------------------------------------------------------------------------------------
// shared helpers for non-triviality rules

pub fn switches_inside_ops(h: &History) -> u64 {
    h.sched.switches
}

pub fn terminal_is_seq(h: &History) -> bool {
    matches!(h.case.terminal, Terminal::IntoSeq { .. })
}

pub fn kind_class(k: Kind) -> &'static str {
    if k.wrapped() {
        "iter"
    } else if k.is_range() {
        "range"
    } else if k.consuming() {
        "consuming"
    } else {
        "slice"
    }
}
