//! Per-property checks: which campaigns (engine, generator, oracle, non-triviality rule) decide
//! each property, for the quick and the thorough tier.

use crate::case::*;
use crate::driver::{Campaign, Ctx, Outcome};
use crate::evidence::Meta;
use crate::gen::{case_strategy, GenCfg};
use crate::history::{History, Res, Tag, TermRes};
use crate::oracle::{self, kind_class, Violation};

pub const REF_KINDS: &[Kind] = &[Kind::Slice, Kind::SliceCon, Kind::VecRef, Kind::ArrRef, Kind::IterRef];
pub const CONSUMING: &[Kind] = &[Kind::VecOwn, Kind::ArrOwn, Kind::IterOwn];
pub const ADAPTORS: &[Kind] = &[
    Kind::ClonedSlice,
    Kind::ClonedVecRef,
    Kind::ClonedArrRef,
    Kind::ClonedIterRef,
    Kind::CopiedSlice,
    Kind::CopiedVecRef,
    Kind::CopiedArrRef,
    Kind::CopiedIterRef,
];
pub const WRAPPED: &[Kind] = &[Kind::IterOwn, Kind::IterRef, Kind::ClonedIterRef, Kind::CopiedIterRef];
pub const KNOWN_SIZE: &[Kind] = &[
    Kind::Slice,
    Kind::SliceCon,
    Kind::VecRef,
    Kind::ArrRef,
    Kind::VecOwn,
    Kind::ArrOwn,
    Kind::Range,
    Kind::RangeInto,
    Kind::ClonedSlice,
    Kind::ClonedVecRef,
    Kind::ClonedArrRef,
    Kind::CopiedSlice,
    Kind::CopiedVecRef,
    Kind::CopiedArrRef,
];

/// multiplier of the quick budgets of the guard-off campaigns (they are cheap)
pub const PLAIN_BOOST: u64 = 4;

pub fn scale_cases(ctx: &Ctx, quick: u64, thorough_factor: u64) -> u64 {
    let f = std::env::var("VERIF_SCALE")
        .ok()
        .and_then(|x| x.parse::<f64>().ok())
        .unwrap_or(1.0);
    let n = if ctx.tier == "thorough" {
        // per-property share of the thorough factor, set from measured run times so that every thorough tier
        // stays in the order of a quarter of an hour on 16 cores (the heavy ones have long histories: up to 200
        // pulls after the end, the linearizability search, three preemptions)
        let (num, den) = match ctx.prop.as_str() {
            "C04" => (1, 6),
            "C05" | "C06" => (1, 4),
            "C11" => (2, 5),
            "C03" | "C07" | "C12" | "C18" => (1, 2),
            _ => (1, 1),
        };
        (quick * thorough_factor * num / den).max(quick)
    } else {
        quick
    };
    ((n as f64) * f).max(16.0) as u64
}

/// model cursor at the end of a sequential history: total requested positions, whether skipped
pub fn cursor(h: &History) -> (u128, bool) {
    let mut pos = 0u128;
    let mut skipped = false;
    for o in &h.ops {
        if o.is_pull() {
            pos += o.requested() as u128;
        }
        if o.tag == Tag::Skip {
            skipped = true;
        }
    }
    (pos, skipped)
}

pub fn distinct_tags(h: &History) -> usize {
    let mut s = std::collections::HashSet::new();
    for o in &h.ops {
        s.insert(std::mem::discriminant(&o.tag));
    }
    s.len()
}

fn panic_guard(h: &History) -> Result<(), Violation> {
    match oracle::unexpected_panic(h) {
        Some(m) => Err(Violation {
            what: "panic",
            detail: m,
        }),
        None => Ok(()),
    }
}

pub fn outcome(h: &History, verdict: Result<(), Violation>, nontrivial: bool, classes: Vec<&'static str>) -> Outcome {
    Outcome {
        verdict,
        sig_ctx: kind_class(h.case.kind).to_string(),
        nontrivial,
        classes,
        inconclusive: h.sched.step_bound_hit,
        evals: 1,
        dfs: None,
        witness: None,
    }
}

// ------------------------------------------------------------------------------------------------
// evaluation functions (engine + oracle + non-triviality), also used by --replay

pub fn eval_c10_seq(case: &Case) -> Outcome {
    let h = crate::seq::run_seq(case);
    let verdict = panic_guard(&h).and_then(|_| oracle::c10_into_seq(&h));
    let (pos, skipped) = cursor(&h);
    let len = h.info.len as u128;
    let class = if skipped {
        "skipped"
    } else if pos == 0 {
        "pos=0"
    } else if pos < len {
        "pos-in-middle"
    } else if pos == len {
        "pos=len"
    } else {
        "pos>len"
    };
    let boundary = class != "pos-in-middle";
    let nontrivial = matches!(h.term, TermRes::Seq { .. }) && (boundary || distinct_tags(&h) >= 2);
    outcome(&h, verdict, nontrivial, vec![class, kind_class(case.kind)])
}

pub fn eval_c08_seq(case: &Case) -> Outcome {
    let h = crate::seq::run_seq(case);
    let verdict = panic_guard(&h).and_then(|_| oracle::c08_exactly_once_ownership(&h));
    let (pos, skipped) = cursor(&h);
    let len = h.info.len as u128;
    let class = if skipped {
        "skipped"
    } else if pos == 0 {
        "nothing-pulled"
    } else if pos < len {
        "partly-pulled"
    } else if pos == len {
        "exactly-exhausted"
    } else {
        "overshot"
    };
    let unconsumed_chunk = h.ops.iter().any(|o| matches!(&o.res, Res::Chunk { announced, items, .. } if items.len() < *announced));
    let nonempty_rem = !skipped && pos < len;
    let nontrivial = nonempty_rem || unconsumed_chunk || skipped;
    let term = if matches!(case.terminal, Terminal::Drop) { "ends-in-drop" } else { "ends-in-into_seq" };
    let mut classes = vec![class, term, kind_class(case.kind)];
    if unconsumed_chunk {
        classes.push("unconsumed-chunk-part");
    }
    if case.len <= 1 {
        classes.push("len<=1");
    }
    outcome(&h, verdict, nontrivial, classes)
}

fn c15_eval(case: &Case, real: bool) -> Outcome {
    // warm-up: thread-local ledger and environment exist before anything is measured
    let _ = crate::elem::thread_ledger();
    let mut balances = vec![];
    let mut flags = (false, false, None::<Violation>);
    for _rep in 0..2 {
        // nothing allocated inside the gate may survive it: only plain flags are returned
        let (s, bytes, blocks) = crate::alloc::gated(|| {
            let h = if real { crate::real::run_real(case) } else { crate::seq::run_seq(case) };
            let panicked = oracle::unexpected_panic(&h).is_some();
            let (pos, skipped) = cursor(&h);
            (panicked, skipped || pos < h.info.len as u128)
        });
        balances.push((bytes, blocks));
        flags.0 |= s.0;
        flags.1 = s.1;
    }
    if flags.0 {
        // re-run outside the gate to obtain the message
        let h = if real { crate::real::run_real(case) } else { crate::seq::run_seq(case) };
        flags.2 = panic_guard(&h).err();
    }
    let undelivered = flags.1;
    let heap_source = match case.kind {
        Kind::VecOwn => case.layout != Layout::Zst && case.len + case.extra_cap > 0,
        Kind::IterOwn => case.len > 0,
        _ => matches!(case.layout, Layout::Boxed | Layout::Str) && case.len > 0,
    };
    let buffer_alive = case.kind == Kind::IterOwn
        && case.threads.iter().any(|t| t.iter().any(|o| matches!(o, Op::BufNew { .. } | Op::Drain(How::Buf(_)))));
    let mut classes = vec![kind_class(case.kind), case.layout.name()];
    classes.push(if matches!(case.terminal, Terminal::Drop) { "ends-in-drop" } else { "ends-in-into_seq" });
    if buffer_alive {
        classes.push("chunk-buffer-alive");
    }
    if undelivered {
        classes.push("undelivered-part");
    }
    if case.extra_cap > 0 {
        classes.push("capacity>len");
    }
    let nontrivial = heap_source && (undelivered || buffer_alive);
    let verdict = match flags.2 {
        Some(v) => Err(v),
        None => {
            if balances.iter().any(|b| *b != (0, 0)) {
                Err(Violation {
                    what: if balances.iter().any(|b| b.0 > 0 || b.1 > 0) { "leak" } else { "negative-balance" },
                    detail: format!(
                        "after the iterator, everything it delivered and everything obtained from it were dropped, the allocation balance of the case is {} bytes in {} blocks (first run) and {} bytes in {} blocks (repetition); expected 0/0",
                        balances[0].0, balances[0].1, balances[1].0, balances[1].1
                    ),
                })
            } else {
                Ok(())
            }
        }
    };
    Outcome {
        verdict,
        sig_ctx: kind_class(case.kind).to_string(),
        nontrivial,
        classes,
        inconclusive: false,
        evals: 2,
        dfs: None,
        witness: None,
    }
}

pub fn eval_c15_seq(case: &Case) -> Outcome {
    c15_eval(case, false)
}

pub fn eval_c15_real(case: &Case) -> Outcome {
    c15_eval(case, true)
}

pub fn eval_c08_seq_fault(case: &Case) -> Outcome {
    let h = crate::seq::run_seq(case);
    let fired = crate::hooks::fault_fired();
    let verdict = panic_guard(&h).and_then(|_| oracle::c08_exactly_once_ownership(&h));
    let mut classes = vec![kind_class(case.kind)];
    if fired {
        classes.push("fault-fired");
    }
    outcome(&h, verdict, fired, classes)
}

/// Body of the ThreadSanitizer stage of C07 (runs inside the TSan-built child): real threads, joined; the
/// sanitizer is the oracle for "no data race on non-atomic shared state"; duplicates are checked on the side.
pub fn eval_c07_real(case: &Case) -> Outcome {
    let h = crate::real::run_real(case);
    let verdict = panic_guard(&h).and_then(|_| oracle::no_duplicates(&h));
    let chunky = h.ops.iter().any(|o| matches!(o.tag, Tag::Chunk { .. } | Tag::BufNext { .. }));
    let skip = h.ops.iter().any(|o| o.tag == Tag::Skip);
    let mut classes = vec![kind_class(case.kind), "real-threads"];
    if skip {
        classes.push("skip");
    }
    outcome(&h, verdict, case.threads.len() >= 2 && chunky, classes)
}

pub fn eval_c08_real(case: &Case) -> Outcome {
    let h = crate::real::run_real(case);
    let verdict = panic_guard(&h).and_then(|_| oracle::c08_exactly_once_ownership(&h));
    let unconsumed_chunk = h.ops.iter().any(|o| matches!(&o.res, Res::Chunk { announced, items, .. } if items.len() < *announced));
    let (pos, skipped) = cursor(&h);
    let nontrivial = case.threads.len() >= 2 && (skipped || pos < h.info.len as u128 || unconsumed_chunk);
    let mut classes = vec![kind_class(case.kind), "real-threads"];
    if unconsumed_chunk {
        classes.push("unconsumed-chunk-part");
    }
    outcome(&h, verdict, nontrivial, classes)
}

pub fn eval_c10_real(case: &Case) -> Outcome {
    let h = crate::real::run_real(case);
    let verdict = panic_guard(&h).and_then(|_| oracle::c10_into_seq(&h));
    let nontrivial = case.threads.len() >= 2 && matches!(h.term, TermRes::Seq { .. }) && h.ops.len() >= 2;
    outcome(&h, verdict, nontrivial, vec![kind_class(case.kind), "real-threads"])
}

/// C14 run-time part: no sequence of safe public calls produces two owners of one element.
pub fn eval_c14_seq(case: &Case) -> Outcome {
    let h = crate::seq::run_seq(case);
    let n = h.info.len;
    let mut verdict: Result<(), Violation> = Ok(());
    if case.kind.consuming() && case.layout != Layout::Zst {
        let mut owners = vec![0u32; n];
        for id in &h.held_ids {
            if (*id as usize) < n {
                owners[*id as usize] += 1;
            }
        }
        for i in 0..n {
            let mid = h.ledger_mid.drops.get(i).copied().unwrap_or(0);
            if owners[i] > 1 {
                verdict = Err(Violation {
                    what: "two-owners",
                    detail: format!("safe calls moved element {} out to {} callers", i, owners[i]),
                });
                break;
            }
            if owners[i] == 1 && mid > 0 {
                verdict = Err(Violation {
                    what: "two-owners",
                    detail: format!("element {} was moved out to a caller and also destroyed by the iterator ({} time(s))", i, mid),
                });
                break;
            }
            if mid > 1 {
                verdict = Err(Violation {
                    what: "two-owners",
                    detail: format!("element {} was destroyed {} times by the iterator", i, mid),
                });
                break;
            }
        }
    }
    let has = |f: &dyn Fn(&Op) -> bool| case.threads.iter().any(|t| t.iter().any(|o| f(o)));
    let ll = has(&|o| o.is_low_level());
    let op_class = if has(&|o| matches!(o, Op::LlGet { .. })) {
        "AtomicIter::get"
    } else if has(&|o| matches!(o, Op::LlStore { .. })) {
        "AtomicCounter::store"
    } else {
        "other-calls"
    };
    let mut classes = vec![kind_class(case.kind), op_class];
    if ll {
        classes.push("low-level-call");
    }
    Outcome {
        verdict,
        sig_ctx: format!("{}/{}", kind_class(case.kind), op_class),
        nontrivial: ll && case.kind.consuming(),
        classes,
        inconclusive: false,
        evals: 1,
        dfs: None,
        witness: None,
    }
}

fn c14_programs(ctx: &mut Ctx) {
    use crate::typeprobe::{compile, find_rlib, programs, Expect};
    let Some((rlib, deps)) = find_rlib() else {
        ctx.trouble.push("cannot find the crate's rlib in harness/target/release/deps".into());
        return;
    };
    let dir = crate::known::verif_root().join("harness").join("target").join("probes");
    let _ = std::fs::remove_dir_all(&dir);
    if std::fs::create_dir_all(&dir).is_err() {
        ctx.trouble.push("cannot create the probe directory".into());
        return;
    }
    let progs = programs();
    let t0 = std::time::Instant::now();
    let results: Vec<crate::typeprobe::Compiled> = {
        let next = std::sync::atomic::AtomicUsize::new(0);
        let slots: Vec<std::sync::Mutex<Option<crate::typeprobe::Compiled>>> = progs.iter().map(|_| std::sync::Mutex::new(None)).collect();
        std::thread::scope(|s| {
            for _ in 0..ctx.workers.max(1) {
                s.spawn(|| loop {
                    let i = next.fetch_add(1, std::sync::atomic::Ordering::Relaxed);
                    if i >= progs.len() {
                        break;
                    }
                    let r = compile(&progs[i], &rlib, &deps, &dir);
                    *slots[i].lock().expect("lock") = Some(r);
                });
            }
        });
        slots.into_iter().map(|m| m.into_inner().expect("lock").expect("compiled")).collect()
    };
    let index: std::collections::HashMap<&str, usize> = progs.iter().enumerate().map(|(i, p)| (p.name.as_str(), i)).collect();
    let mut negatives_with_valid_twin = 0u64;
    let mut class_hist: std::collections::BTreeMap<String, u64> = Default::default();
    for (i, p) in progs.iter().enumerate() {
        let r = &results[i];
        match &p.expect {
            Expect::Accept => {
                if !r.ok {
                    ctx.trouble.push(format!("valid program '{}' does not compile: {}", p.name, r.first_error));
                }
            }
            Expect::Reject(codes) => {
                let twin_ok = p.twin.as_ref().and_then(|t| index.get(t.as_str())).map(|j| results[*j].ok).unwrap_or(false);
                if !twin_ok {
                    ctx.trouble.push(format!("the valid twin of probe '{}' is missing or does not compile", p.name));
                    continue;
                }
                negatives_with_valid_twin += 1;
                *class_hist.entry(format!("programs:{}", p.class)).or_insert(0) += 1;
                if r.ok && std::env::var("VERIF_C14_DEBUG").is_ok() {
                    eprintln!("ACCEPTED: {}", p.name);
                }
                if r.ok {
                    let sig = format!("C14/accepted-invalid-program/{}", p.class);
                    if ctx.open.iter().any(|o| o.0 == sig) {
                        *ctx.tally.excluded_known.entry(sig.clone()).or_insert(0) += 1;
                        ctx.known_hit.entry(sig).or_insert_with(|| format!("program '{}' compiles", p.name));
                    } else if ctx.prog_failure.is_none() {
                        let rdir = crate::known::verif_root().join("replays").join("C14");
                        let _ = std::fs::create_dir_all(&rdir);
                        let path = rdir.join(format!("found-{}.rs", p.name));
                        let _ = std::fs::write(&path, &p.src);
                        ctx.prog_failure = Some(crate::driver::ProgFailure {
                            sig,
                            detail: format!("the program '{}' must be rejected by the compiler ({}) but compiles; its valid twin '{}' compiles as well", p.name, p.class, p.twin.clone().unwrap_or_default()),
                            replay: path,
                        });
                    }
                } else if !r.codes.iter().any(|c| codes.contains(&c.as_str())) {
                    ctx.trouble.push(format!("probe '{}' is rejected for an unexpected reason ({:?}): {}", p.name, r.codes, r.first_error));
                }
            }
        }
    }
    ctx.tally.evaluations += progs.len() as u64;
    for (i, p) in progs.iter().enumerate() {
        if matches!(p.expect, Expect::Reject(_)) {
            ctx.tally.nontrivial_hashes.insert(crate::case::fnv1a(p.src.as_bytes()));
            if ctx.tally.samples.len() < 3 && i % 37 == 0 {
                ctx.tally.samples.push(serde_json::json!({"program": p.name, "expect": format!("{:?}", p.expect), "source": p.src}));
            }
        }
    }
    for (k, v) in class_hist {
        *ctx.tally.classes.entry(k).or_insert(0) += v;
    }
    ctx.tally.campaigns.push(serde_json::json!({
        "name": "programs", "programs": progs.len(), "negative_probes_with_compiling_twin": negatives_with_valid_twin,
        "exhaustive": true, "space": "the finite program grammar of harness/src/typeprobe.rs (constructors x element types x usages; borrow probes x kinds)",
        "wall_s": t0.elapsed().as_secs_f64(),
    }));
}

fn cfg_c14(thorough: bool, known_excluded: bool) -> GenCfg {
    let mut kinds = CONSUMING.to_vec();
    kinds.extend_from_slice(&[Kind::VecOwn, Kind::ArrOwn, Kind::Slice, Kind::ClonedSlice, Kind::Range]);
    let mut c = GenCfg::base(&kinds);
    c.max_len = if thorough { 24 } else { 10 };
    c.max_threads = 2;
    c.max_ops = 8;
    c.w_lowlevel = 14;
    c.w_skip = 1;
    c.w_len = 1;
    c.ll_exclude_known = known_excluded;
    c.terminal_mode = 2;
    c
}

// ------------------------------------------------------------------------------------------------
// generator presets

fn cfg_c15(thorough: bool, real: bool) -> GenCfg {
    let mut c = GenCfg::base(CONSUMING);
    c.max_len = if thorough { 64 } else { 24 };
    c.min_threads = if real { 2 } else { 1 };
    c.max_threads = 3;
    c.max_ops = 5;
    c.w_skip = 1;
    c.terminal_mode = 2;
    c.extra_cap = true;
    c.layouts = if real {
        vec![Layout::Tracked, Layout::Boxed, Layout::Str]
    } else {
        vec![Layout::Tracked, Layout::Boxed, Layout::Str, Layout::Zst]
    };
    if std::env::var("VERIF_C15_KINDS").ok().as_deref() == Some("vec-tracked") {
        c.kinds = vec![Kind::VecOwn];
        c.layouts = vec![Layout::Tracked];
    }
    c
}

fn cfg_c10(thorough: bool) -> GenCfg {
    let mut kinds: Vec<Kind> = ALL_KINDS.to_vec();
    kinds.extend_from_slice(CONSUMING); // consuming kinds twice as often
    let mut c = GenCfg::base(&kinds);
    c.max_len = if thorough { 40 } else { 24 };
    c.max_threads = 3;
    c.max_ops = 6;
    c.w_skip = 1;
    c.w_len = 1;
    c.terminal_mode = 1;
    c.extra_cap = true;
    c.layouts = vec![Layout::Tracked, Layout::Tracked, Layout::Zst];
    c
}

fn cfg_c08(thorough: bool) -> GenCfg {
    let mut c = GenCfg::base(CONSUMING);
    c.max_len = if thorough { 40 } else { 16 };
    c.max_threads = 3;
    c.max_ops = 6;
    c.w_skip = 1;
    c.terminal_mode = 2;
    c.extra_cap = true;
    c.layouts = vec![Layout::Tracked, Layout::Tracked, Layout::Tracked, Layout::Zst];
    c
}

// ------------------------------------------------------------------------------------------------

pub fn assumptions_common() -> Vec<String> {
    vec![
        "generated-input search: no claim about cases that were not generated".into(),
        "element values are distinct pseudo-random 64-bit numbers; identity is tracked per element".into(),
        "wrapped sequential iterators are fused and report truthful size hints".into(),
    ]
}

pub fn check(ctx: &mut Ctx) -> Option<Meta> {
    let thorough = ctx.tier == "thorough";
    #[cfg(orx_concurrent_iter_verif)]
    if matches!(ctx.prop.as_str(), "C07" | "C08" | "C10" | "C13" | "C15" | "C16") {
        // second half of a two-binary property: the schedule-engine campaigns
        return crate::props_sched::check(ctx);
    }
    match ctx.prop.as_str() {
        "C10" => {
            crate::replay::replay_saved(ctx, "seq", &eval_c10_seq);
            let cfg = cfg_c10(thorough);
            let n = scale_cases(ctx, PLAIN_BOOST * 300_000, 30);
            let rule = "E2 sequential histories over all source kinds ending in into_seq_iter; oracle: remainder = src[delivered..] in order (suffix after skip), by value, identity and address; non-trivial = cursor at a boundary (0, ==len, >len, skipped) or >=2 different operation kinds before the conversion; distinct by case hash".to_string();
            ctx.run_campaign(&Campaign {
                name: "seq-into_seq".into(),
                cases: n,
                make_strategy: &|| case_strategy(&cfg),
                run: &eval_c10_seq,
                rule: rule.clone(),
            });
            let mut cfg_r = cfg_c10(thorough);
            cfg_r.min_threads = 2;
            cfg_r.layouts = vec![Layout::Tracked];
            ctx.run_campaign(&Campaign {
                name: "real-into_seq".into(),
                cases: scale_cases(ctx, 10_000, 20),
                make_strategy: &|| case_strategy(&cfg_r),
                run: &eval_c10_real,
                rule: "the same oracle after concurrent use by 2-3 real OS threads, joined before the conversion".into(),
            });
            Some(Meta {
                level: "exploration",
                rule,
                assumptions: assumptions_common(),
            })
        }
        "C08" => {
            crate::replay::replay_saved(ctx, "seq", &eval_c08_seq);
            let cfg = cfg_c08(thorough);
            let n = scale_cases(ctx, PLAIN_BOOST * 200_000, 50);
            let rule = "E2 sequential histories on consuming kinds (Vec, [T;N], owning wrapped iterator) with destructor-counting elements (24-byte and zero-sized), ending in drop or into_seq_iter; oracle: identity ledger - every element dropped exactly once, never while a caller owns it, at most one owner; non-trivial = non-empty undelivered remainder, unconsumed chunk part, or skip; distinct by case hash".to_string();
            ctx.run_campaign(&Campaign {
                name: "seq-ledger".into(),
                cases: n,
                make_strategy: &|| case_strategy(&cfg),
                run: &eval_c08_seq,
                rule: rule.clone(),
            });
            let mut cfg_f = cfg_c08(thorough);
            cfg_f.w_drain_composite = 3;
            cfg_f.end_with_drain = true;
            cfg_f.end_drain_composite = true;
            cfg_f.fault_sites = vec![FaultSite::Closure, FaultSite::Closure, FaultSite::ProbeNext];
            ctx.run_campaign(&Campaign {
                name: "seq-ledger-after-panic".into(),
                cases: scale_cases(ctx, PLAIN_BOOST * 40_000, 30),
                make_strategy: &|| case_strategy(&cfg_f),
                run: &eval_c08_seq_fault,
                rule: "the same ledger oracle when a for_each / fold closure or the wrapped iterator panics at a generated point (the panic unwinds through a live chunk)".into(),
            });
            let mut cfg_r = cfg_c08(thorough);
            cfg_r.min_threads = 2;
            cfg_r.layouts = vec![Layout::Tracked];
            ctx.run_campaign(&Campaign {
                name: "real-ledger".into(),
                cases: scale_cases(ctx, 10_000, 20),
                make_strategy: &|| case_strategy(&cfg_r),
                run: &eval_c08_real,
                rule: "the same ledger oracle after concurrent use by 2-3 real OS threads, joined before drop / into_seq_iter".into(),
            });
            Some(Meta {
                level: "exploration",
                rule,
                assumptions: assumptions_common(),
            })
        }
        "C16" => {
            let twin = |c: &Case| crate::twin::judge_in_twins("C16", "seq", c);
            crate::replay::replay_saved(ctx, "seq", &crate::c16::eval_c16);
            crate::replay::replay_saved(ctx, "seq", &twin);
            let grid = crate::c16::grid();
            let rule = "exhaustively enumerated grid: range bounds {0,1,2,3,5,MAX/2-2..MAX/2+2,MAX-5,MAX-3,MAX-2,MAX-1,MAX}^2 (both constructors) and every other source kind with lengths {0,1,2,3,5}, first pull one-shot or buffered with sizes {0,1,len-1,len,len+1,MAX/2,MAX/2+1,MAX-2,MAX-1,MAX} (<=4096 for buffered pulls on wrapped iterators), 8 tails of further pulls / skip / length queries, drop or into_seq_iter; plus buffered_iter(0), for_each(0), enumerate_for_each(0), fold(0) and huge sizes through the composites; oracle: u128 cursor model step by step, never an empty chunk or out-of-range value, no panic except the documented zero-size panics (which must occur); every case is judged in-process (release) and in both twin processes (debug-assertions+overflow-checks on / off); non-trivial = an operand within 5 of 0, MAX/2 or MAX; thorough adds random neighbours of the grid".to_string();
            ctx.run_enumeration("seq-grid-release", &grid, &crate::c16::eval_c16, "the C16 grid described in rule");
            ctx.run_enumeration("seq-grid-twins", &grid, &twin, "the C16 grid, in both overflow modes");
            if thorough {
                ctx.run_campaign(&Campaign {
                    name: "seq-grid-neighbours".into(),
                    cases: scale_cases(ctx, PLAIN_BOOST * 20_000, 50),
                    make_strategy: &crate::c16::random_strategy,
                    run: &crate::c16::eval_c16,
                    rule: "random boundary ranges / chunk sizes with random tails".into(),
                });
                ctx.run_campaign(&Campaign {
                    name: "seq-grid-neighbours-twins".into(),
                    cases: scale_cases(ctx, 10_000, 20),
                    make_strategy: &crate::c16::random_strategy,
                    run: &twin,
                    rule: "the same in both overflow modes".into(),
                });
            } else {
                ctx.run_campaign(&Campaign {
                    name: "seq-grid-neighbours".into(),
                    cases: scale_cases(ctx, PLAIN_BOOST * 20_000, 1),
                    make_strategy: &crate::c16::random_strategy,
                    run: &crate::c16::eval_c16,
                    rule: "random boundary ranges / chunk sizes with random tails".into(),
                });
            }
            // sources longer than isize::MAX exist for zero-sized elements only: &[()] and Vec<()> with lengths
            // {MAX, MAX-1, MAX-7, MAX/2+2, MAX/2+1, MAX/2, 2^62}, pulls with boundary and ordinary chunk sizes
            let huge = || crate::zsthuge::strategy(false);
            ctx.run_campaign(&Campaign {
                name: "seq-huge-zst".into(),
                cases: scale_cases(ctx, PLAIN_BOOST * 250_000, 10),
                make_strategy: &huge,
                run: &crate::c16::eval_c16,
                rule: "slices and vectors of zero-sized elements with lengths up to usize::MAX, one-shot and buffered chunk pulls with boundary sizes, single pulls, length queries, skip, into_seq_iter; oracle: u128 cursor model, every result predicted exactly".into(),
            });
            ctx.run_campaign(&Campaign {
                name: "seq-huge-zst-twins".into(),
                cases: scale_cases(ctx, 20_000, 10),
                make_strategy: &huge,
                run: &twin,
                rule: "the same in both overflow modes".into(),
            });
            Some(Meta {
                level: "exploration",
                rule,
                assumptions: assumptions_common(),
            })
        }
        "C17" => {
            crate::replay::replay_saved(ctx, "seq", &crate::twin::eval_c17);
            let mut cfg = GenCfg::base(ALL_KINDS);
            cfg.kinds.extend_from_slice(CONSUMING);
            cfg.kinds.extend_from_slice(CONSUMING);
            cfg.max_len = if thorough { 24 } else { 12 };
            cfg.max_threads = 2;
            cfg.max_ops = 6;
            cfg.w_skip = 1;
            cfg.w_len = 1;
            cfg.w_has = 1;
            cfg.w_drain_composite = 1;
            cfg.terminal_mode = 2;
            cfg.extra_cap = true;
            cfg.min_chunk = 0;
            cfg.layouts = vec![Layout::Tracked, Layout::Tracked, Layout::Zst];
            let rule = "ordinary sequential histories over all kinds (chunk sizes <= len+3) executed by two builds of the crate and the harness (debug-assertions + overflow-checks on / both off, same optimisation level) in separate processes; oracle: the transcripts (every result, panics, process aborts, destructor ledger, 'allocation balance is zero') are identical; non-trivial = the history contains a chunk pull or ends a consuming iterator; distinct by case hash".to_string();
            ctx.run_campaign(&Campaign {
                name: "seq-twins".into(),
                cases: scale_cases(ctx, PLAIN_BOOST * 200_000, 20),
                make_strategy: &|| case_strategy(&cfg),
                run: &crate::twin::eval_c17,
                rule: rule.clone(),
            });
            let mut a = assumptions_common();
            a.push("std's ub_checks (active in code monomorphised under debug assertions) are the oracle for 'documented preconditions of the standard library'".into());
            Some(Meta {
                level: "exploration",
                rule,
                assumptions: a,
            })
        }
        "C13" => {
            crate::replay::replay_saved(ctx, "seq", &crate::lockstep::eval_c13);
            let mut cfg = GenCfg::base(ADAPTORS);
            cfg.max_len = if thorough { 40 } else { 16 };
            cfg.max_threads = 3;
            cfg.max_ops = 7;
            cfg.w_len = 2;
            cfg.w_has = 1;
            cfg.w_skip = 1;
            cfg.w_chunk = 5;
            cfg.w_bufnext = 6;
            cfg.w_drain_composite = 1;
            cfg.terminal_mode = 2;
            cfg.pre_pulls = true;
            cfg.max_ops = 9;
            cfg.min_chunk = 0;
            let rule = "E2 lock-step: every cloned()/copied() adaptor kind (over slice, Vec, array and a wrapped iterator of references with exact/inexact/unbounded hints) and its underlying reference-yielding iterator are built over the same data and driven by the same generated operation list incl. into_seq_iter; oracle: operation by operation equal indices, chunk boundaries, len() trajectories, try_get_len / has_more, end and skip behaviour, items are owned clones of the same elements, source intact, clone ledger balanced; non-trivial = history contains a one-shot chunk, a buffered chunk, a length query and a skip or into_seq_iter".to_string();
            ctx.run_campaign(&Campaign {
                name: "seq-lockstep".into(),
                cases: scale_cases(ctx, PLAIN_BOOST * 200_000, 30),
                make_strategy: &|| case_strategy(&cfg),
                run: &crate::lockstep::eval_c13,
                rule: rule.clone(),
            });
            Some(Meta {
                level: "exploration",
                rule,
                assumptions: assumptions_common(),
            })
        }
        "C19" => {
            crate::replay::replay_saved(ctx, "seq", &crate::multi::eval_c19);
            let rule = "E2 with several iterators: a collection (slice, Vec, array, range; every non-consuming constructor) and an interleaved history of 'new iterator', 'clone iterator i' and pull / skip / length operations on iterator j; oracle: one model cursor per iterator (a clone starts at the original's position), every delivered reference has the address of the collection element at its index, afterwards the collection is unchanged, nothing was cloned or dropped, and it can be mutated and dropped normally; non-trivial = >=2 iterators at different positions and >=1 clone taken after progress".to_string();
            ctx.run_campaign(&Campaign {
                name: "seq-multi-iterator".into(),
                cases: scale_cases(ctx, PLAIN_BOOST * 200_000, 30),
                make_strategy: &|| crate::multi::strategy(thorough),
                run: &crate::multi::eval_c19,
                rule: rule.clone(),
            });
            ctx.run_campaign(&Campaign {
                name: "seq-multi-iterator-huge-zst".into(),
                cases: scale_cases(ctx, PLAIN_BOOST * 300_000, 10),
                make_strategy: &|| crate::zsthuge::strategy(true),
                run: &crate::multi::eval_c19,
                rule: "the same history shape over &[()] / &Vec<()> of lengths up to usize::MAX (the only collections longer than isize::MAX), pulls with boundary chunk sizes; oracle: one u128 cursor per iterator, clones start at the original's position; non-trivial = >=2 iterators, >=2 pulls, >=1 clone".into(),
            });
            Some(Meta {
                level: "exploration",
                rule,
                assumptions: assumptions_common(),
            })
        }
        "C14" => {
            c14_programs(ctx);
            // open findings: their saved minimal cases are replayed; if they still fail they are reported as known
            crate::replay::replay_saved(ctx, "seq", &eval_c14_seq);
            let cfg = cfg_c14(thorough, true);
            let rule = "(a) programs: the finite grammar of client programs (18 ways to obtain an iterator x 6 element types x construct / share in thread::scope / move into thread::spawn; wrapped iterators capturing Rc vs Arc; 14 borrow probes x source kinds), each negative program paired with a valid twin that must compile; oracle: rustc rejects the negative program with an error of the expected class (E0277/E0599 for thread safety, E0499/E0502/E0505/E0506/E0597/E0716 for borrows); (b) sequences over all safe public calls on consuming iterators incl. AtomicIter::{fetch_one, fetch_n, progress_and_get_begin_idx, early_exit} (get / AtomicCounter::store are the known finding D10 and are excluded by construction, their minimal cases are replayed); oracle: identity ledger - no element has two owners; non-trivial = negative probe whose twin compiles / sequence with >=1 low-level call on a consuming kind".to_string();
            ctx.run_campaign(&Campaign {
                name: "seq-safe-call-sequences".into(),
                cases: scale_cases(ctx, PLAIN_BOOST * 100_000, 50),
                make_strategy: &|| case_strategy(&cfg),
                run: &eval_c14_seq,
                rule: rule.clone(),
            });
            let mut a = assumptions_common();
            a.push("the program family is finite: evidence about the listed constructors, adaptors and impls, not about all safe programs".into());
            a.push("rustc's verdict on a program is trusted".into());
            Some(Meta {
                level: "exploration",
                rule,
                assumptions: a,
            })
        }
        "C07" => {
            // plain-flavour half of C07: real threads under ThreadSanitizer (the schedule-engine half ran before)
            if !crate::twin::tsan_binary().exists() {
                println!("note: the ThreadSanitizer build of the harness is not available; the real-thread race stage of C07 is skipped");
                return Some(Meta { level: "exploration", rule: String::new(), assumptions: assumptions_common() });
            }
            let tsan = |c: &Case| crate::twin::judge_under_tsan("C07", "real", c);
            crate::replay::replay_saved(ctx, "real", &tsan);
            let mut cfg = GenCfg::base(ALL_KINDS);
            cfg.kinds.extend_from_slice(CONSUMING);
            cfg.kinds.extend_from_slice(CONSUMING);
            cfg.max_len = 1500;
            cfg.min_threads = 2;
            cfg.max_threads = 4;
            cfg.max_ops = 5;
            cfg.w_skip = 2;
            cfg.w_len = 1;
            cfg.w_drain_elem = 6;
            cfg.w_drain_composite = 2;
            cfg.w_chunk = 6;
            cfg.w_bufnext = 6;
            cfg.extra_cap = true;
            cfg.terminal_mode = 2;
            cfg.odd_ranges = false;
            let rule = "real-thread stage: generated multi-threaded programs (2-4 OS threads, sources of up to 1500 elements so that the threads overlap, chunk / buffered / single pulls, drains, skip_to_end) are executed by a child process built with -Zsanitizer=thread; oracle: no ThreadSanitizer data-race report (and no duplicate delivery); non-trivial = >=2 threads with a chunk or buffered pull".to_string();
            ctx.run_campaign(&Campaign {
                name: "real-tsan".into(),
                cases: scale_cases(ctx, 30_000, 20),
                make_strategy: &|| case_strategy(&cfg),
                run: &tsan,
                rule: rule.clone(),
            });
            let mut a = assumptions_common();
            a.push("ThreadSanitizer sees the accesses of one OS-scheduled execution per case; it reports a race only if both accesses occur in that execution (happens-before based, no exact timing needed)".into());
            Some(Meta { level: "exploration", rule, assumptions: a })
        }
        "C15" => {
            crate::replay::replay_saved(ctx, "seq", &eval_c15_seq);
            crate::replay::replay_saved(ctx, "real", &eval_c15_real);
            let cfg = cfg_c15(thorough, false);
            let cfg_r = cfg_c15(thorough, true);
            let rule = "E2/E3 histories on consuming kinds (Vec with capacity > len, [T;N], owning wrapped iterator) with element layouts {zero-sized, 24 bytes, Box, String}, ending in drop or into_seq_iter; the whole case runs inside a gated counting allocator and is executed twice; oracle: allocation balance (bytes and blocks) exactly zero in both runs; second campaign: the same after concurrent use by 2-3 real threads; non-trivial = the source owned heap memory and the case ends with an undelivered part or a live chunk buffer; distinct by case hash".to_string();
            ctx.run_campaign(&Campaign {
                name: "seq-alloc-balance".into(),
                cases: scale_cases(ctx, PLAIN_BOOST * 100_000, 30),
                make_strategy: &|| case_strategy(&cfg),
                run: &eval_c15_seq,
                rule: rule.clone(),
            });
            ctx.run_campaign(&Campaign {
                name: "real-alloc-balance".into(),
                cases: scale_cases(ctx, 10_000, 20),
                make_strategy: &|| case_strategy(&cfg_r),
                run: &eval_c15_real,
                rule: rule.clone(),
            });
            let mut cfg_f = cfg_c15(thorough, false);
            cfg_f.layouts = vec![Layout::Boxed, Layout::Str, Layout::Tracked];
            cfg_f.w_drain_composite = 3;
            cfg_f.end_with_drain = true;
            cfg_f.end_drain_composite = true;
            cfg_f.fault_sites = vec![FaultSite::Closure, FaultSite::Closure, FaultSite::ProbeNext];
            ctx.run_campaign(&Campaign {
                name: "seq-alloc-balance-after-panic".into(),
                cases: scale_cases(ctx, PLAIN_BOOST * 40_000, 30),
                make_strategy: &|| case_strategy(&cfg_f),
                run: &eval_c15_seq,
                rule: "the same balance oracle when a for_each / fold closure or the wrapped iterator panics at a generated point (caught by the caller); everything is dropped afterwards".into(),
            });
            let mut a = assumptions_common();
            a.push("only allocations made through the global allocator on the threads of the case are counted (gate on); thread creation/joining is excluded".into());
            Some(Meta {
                level: "exploration",
                rule,
                assumptions: a,
            })
        }
        _ => {
            #[cfg(orx_concurrent_iter_verif)]
            {
                return crate::props_sched::check(ctx);
            }
            #[allow(unreachable_code)]
            None
        }
    }
}

/// Evaluates one case under the property's oracle (replay files).
pub fn eval_for(prop: &str, engine: &str) -> Option<fn(&Case) -> Outcome> {
    #[cfg(orx_concurrent_iter_verif)]
    if engine == "sched" {
        return crate::props_sched::eval_for(prop, engine);
    }
    match (prop, engine) {
        ("C10", "real") => Some(eval_c10_real),
        ("C10", _) => Some(eval_c10_seq),
        ("C08", "seq") => Some(eval_c08_seq),
        ("C08", "real") => Some(eval_c08_real),
        ("C08", "seqfault") => Some(eval_c08_seq_fault),
        ("C15", "real") => Some(eval_c15_real),
        ("C07", "real") => Some(eval_c07_real),
        ("C16", _) => Some(crate::c16::eval_c16),
        ("C14", _) => Some(eval_c14_seq),
        ("C13", _) => Some(crate::lockstep::eval_c13),
        ("C19", _) => Some(crate::multi::eval_c19),
        ("C17", _) => Some(crate::twin::eval_c17),
        ("C15", _) => Some(eval_c15_seq),
        _ => {
            #[cfg(orx_concurrent_iter_verif)]
            {
                return crate::props_sched::eval_for(prop, engine);
            }
            #[allow(unreachable_code)]
            None
        }
    }
}
