//! Per-property checks: which campaigns (engine, generator, oracle, non-triviality rule) decide
//! each property, for the quick and the thorough tier.

use crate::case::*;
use crate::driver::{Campaign, Ctx, Outcome};
use crate::evidence::Meta;
use crate::gen::{case_strategy, GenCfg};
use crate::history::{History, Res, Tag, TermRes};
use crate::oracle::{self, kind_class, Violation};

pub const REF_KINDS: &[Kind] = &[Kind::Slice, Kind::SliceCon, Kind::VecRef, Kind::ArrRef, Kind::IterRef];
pub const CONSUMING: &[Kind] = &[Kind::VecOwn, Kind::ArrOwn, Kind::IterOwn];
pub const ADAPTORS: &[Kind] = &[
    Kind::ClonedSlice,
    Kind::ClonedVecRef,
    Kind::ClonedArrRef,
    Kind::ClonedIterRef,
    Kind::CopiedSlice,
    Kind::CopiedVecRef,
    Kind::CopiedArrRef,
    Kind::CopiedIterRef,
];
pub const WRAPPED: &[Kind] = &[Kind::IterOwn, Kind::IterRef, Kind::ClonedIterRef, Kind::CopiedIterRef];
pub const KNOWN_SIZE: &[Kind] = &[
    Kind::Slice,
    Kind::SliceCon,
    Kind::VecRef,
    Kind::ArrRef,
    Kind::VecOwn,
    Kind::ArrOwn,
    Kind::Range,
    Kind::RangeInto,
    Kind::ClonedSlice,
    Kind::ClonedVecRef,
    Kind::ClonedArrRef,
    Kind::CopiedSlice,
    Kind::CopiedVecRef,
    Kind::CopiedArrRef,
];

pub fn scale_cases(ctx: &Ctx, quick: u64, thorough_factor: u64) -> u64 {
    let f = std::env::var("VERIF_SCALE")
        .ok()
        .and_then(|x| x.parse::<f64>().ok())
        .unwrap_or(1.0);
    let n = if ctx.tier == "thorough" {
        quick * thorough_factor
    } else {
        quick
    };
    ((n as f64) * f).max(16.0) as u64
}

/// model cursor at the end of a sequential history: total requested positions, whether skipped
pub fn cursor(h: &History) -> (u128, bool) {
    let mut pos = 0u128;
    let mut skipped = false;
    for o in &h.ops {
        if o.is_pull() {
            pos += o.requested() as u128;
        }
        if o.tag == Tag::Skip {
            skipped = true;
        }
    }
    (pos, skipped)
}

pub fn distinct_tags(h: &History) -> usize {
    let mut s = std::collections::HashSet::new();
    for o in &h.ops {
        s.insert(std::mem::discriminant(&o.tag));
    }
    s.len()
}

fn panic_guard(h: &History) -> Result<(), Violation> {
    match oracle::unexpected_panic(h) {
        Some(m) => Err(Violation {
            what: "panic",
            detail: m,
        }),
        None => Ok(()),
    }
}

pub fn outcome(h: &History, verdict: Result<(), Violation>, nontrivial: bool, classes: Vec<&'static str>) -> Outcome {
    Outcome {
        verdict,
        sig_ctx: kind_class(h.case.kind).to_string(),
        nontrivial,
        classes,
        inconclusive: h.sched.step_bound_hit,
        evals: 1,
        dfs: None,
        witness: None,
    }
}

// ------------------------------------------------------------------------------------------------
// evaluation functions (engine + oracle + non-triviality), also used by --replay

pub fn eval_c10_seq(case: &Case) -> Outcome {
    let h = crate::seq::run_seq(case);
    let verdict = panic_guard(&h).and_then(|_| oracle::c10_into_seq(&h));
    let (pos, skipped) = cursor(&h);
    let len = h.info.len as u128;
    let class = if skipped {
        "skipped"
    } else if pos == 0 {
        "pos=0"
    } else if pos < len {
        "pos-in-middle"
    } else if pos == len {
        "pos=len"
    } else {
        "pos>len"
    };
    let boundary = class != "pos-in-middle";
    let nontrivial = matches!(h.term, TermRes::Seq { .. }) && (boundary || distinct_tags(&h) >= 2);
    outcome(&h, verdict, nontrivial, vec![class, kind_class(case.kind)])
}

pub fn eval_c08_seq(case: &Case) -> Outcome {
    let h = crate::seq::run_seq(case);
    let verdict = panic_guard(&h).and_then(|_| oracle::c08_exactly_once_ownership(&h));
    let (pos, skipped) = cursor(&h);
    let len = h.info.len as u128;
    let class = if skipped {
        "skipped"
    } else if pos == 0 {
        "nothing-pulled"
    } else if pos < len {
        "partly-pulled"
    } else if pos == len {
        "exactly-exhausted"
    } else {
        "overshot"
    };
    let unconsumed_chunk = h.ops.iter().any(|o| matches!(&o.res, Res::Chunk { announced, items, .. } if items.len() < *announced));
    let nonempty_rem = !skipped && pos < len;
    let nontrivial = nonempty_rem || unconsumed_chunk || skipped;
    let term = if matches!(case.terminal, Terminal::Drop) { "ends-in-drop" } else { "ends-in-into_seq" };
    let mut classes = vec![class, term, kind_class(case.kind)];
    if unconsumed_chunk {
        classes.push("unconsumed-chunk-part");
    }
    if case.len <= 1 {
        classes.push("len<=1");
    }
    outcome(&h, verdict, nontrivial, classes)
}

// ------------------------------------------------------------------------------------------------
// generator presets

fn cfg_c10(thorough: bool) -> GenCfg {
    let mut kinds: Vec<Kind> = ALL_KINDS.to_vec();
    kinds.extend_from_slice(CONSUMING); // consuming kinds twice as often
    let mut c = GenCfg::base(&kinds);
    c.max_len = if thorough { 40 } else { 24 };
    c.max_threads = 3;
    c.max_ops = 6;
    c.w_skip = 1;
    c.w_len = 1;
    c.terminal_mode = 1;
    c.extra_cap = true;
    c.layouts = vec![Layout::Tracked, Layout::Tracked, Layout::Zst];
    c
}

fn cfg_c08(thorough: bool) -> GenCfg {
    let mut c = GenCfg::base(CONSUMING);
    c.max_len = if thorough { 40 } else { 16 };
    c.max_threads = 3;
    c.max_ops = 6;
    c.w_skip = 1;
    c.terminal_mode = 2;
    c.extra_cap = true;
    c.layouts = vec![Layout::Tracked, Layout::Tracked, Layout::Tracked, Layout::Zst];
    c
}

// ------------------------------------------------------------------------------------------------

pub fn assumptions_common() -> Vec<String> {
    vec![
        "generated-input search: no claim about cases that were not generated".into(),
        "element values are distinct pseudo-random 64-bit numbers; identity is tracked per element".into(),
        "wrapped sequential iterators are fused and report truthful size hints".into(),
    ]
}

pub fn check(ctx: &mut Ctx) -> Option<Meta> {
    let thorough = ctx.tier == "thorough";
    match ctx.prop.as_str() {
        "C10" => {
            crate::replay::replay_saved(ctx, "seq", &eval_c10_seq);
            let cfg = cfg_c10(thorough);
            let n = scale_cases(ctx, 300_000, 30);
            let rule = "E2 sequential histories over all source kinds ending in into_seq_iter; oracle: remainder = src[delivered..] in order (suffix after skip), by value, identity and address; non-trivial = cursor at a boundary (0, ==len, >len, skipped) or >=2 different operation kinds before the conversion; distinct by case hash".to_string();
            ctx.run_campaign(&Campaign {
                name: "seq-into_seq".into(),
                cases: n,
                make_strategy: &|| case_strategy(&cfg),
                run: &eval_c10_seq,
                rule: rule.clone(),
            });
            Some(Meta {
                level: "exploration",
                rule,
                assumptions: assumptions_common(),
            })
        }
        "C08" => {
            crate::replay::replay_saved(ctx, "seq", &eval_c08_seq);
            let cfg = cfg_c08(thorough);
            let n = scale_cases(ctx, 200_000, 50);
            let rule = "E2 sequential histories on consuming kinds (Vec, [T;N], owning wrapped iterator) with destructor-counting elements (24-byte and zero-sized), ending in drop or into_seq_iter; oracle: identity ledger - every element dropped exactly once, never while a caller owns it, at most one owner; non-trivial = non-empty undelivered remainder, unconsumed chunk part, or skip; distinct by case hash".to_string();
            ctx.run_campaign(&Campaign {
                name: "seq-ledger".into(),
                cases: n,
                make_strategy: &|| case_strategy(&cfg),
                run: &eval_c08_seq,
                rule: rule.clone(),
            });
            Some(Meta {
                level: "exploration",
                rule,
                assumptions: assumptions_common(),
            })
        }
        _ => {
            #[cfg(orx_concurrent_iter_verif)]
            {
                return crate::props_sched::check(ctx);
            }
            #[allow(unreachable_code)]
            None
        }
    }
}

/// Evaluates one case under the property's oracle (replay files).
pub fn eval_for(prop: &str, engine: &str) -> Option<fn(&Case) -> Outcome> {
    match (prop, engine) {
        ("C10", _) => Some(eval_c10_seq),
        ("C08", "seq") => Some(eval_c08_seq),
        _ => {
            #[cfg(orx_concurrent_iter_verif)]
            {
                return crate::props_sched::eval_for(prop, engine);
            }
            #[allow(unreachable_code)]
            None
        }
    }
}
