//! Checks served by the schedule engine E1 (binary built with `--cfg orx_concurrent_iter_verif`).
//! The sequential parts (E2) of these properties run in the same binary; without a monitor installed
//! the atomic shim is a pass-through.

use crate::case::*;
use crate::driver::{Campaign, Ctx, Outcome};
use crate::evidence::Meta;
use crate::gen::{case_strategy, GenCfg};
use crate::history::{HasRec, History, OpRec, Res, Tag};
use crate::interp::UNTIMED;
use crate::oracle::{self, Verdict, Violation};
use crate::props::{assumptions_common, outcome, scale_cases, KNOWN_SIZE, WRAPPED};
use crate::sched::{run_sched, run_sched_with, run_seq_e1, unmodelled_sync, DfsChooser};
use crate::sched::run_seq_e1 as run_seq;

pub fn assumptions_sched() -> Vec<String> {
    let mut a = assumptions_common();
    a.push("values of atomics are sequentially consistent in the schedule engine; only the happens-before relation follows the C11 orderings the crate passes to the shim".into());
    a.push("yield points: every atomic access of the crate, the wrapped iterator's next, element clones and user closures; code between two yield points runs atomically".into());
    a.push("a thread is waiting iff >=6 consecutive accesses inside one crate call left memory unchanged with period <=3; all-waiting (confirmed by 64 more events each) is a hang".into());
    a
}

/// kinds for E1 runs: every kind once, the interesting ones more often
pub fn e1_kinds() -> Vec<Kind> {
    let mut k = ALL_KINDS.to_vec();
    k.extend_from_slice(&[
        Kind::VecOwn,
        Kind::ArrOwn,
        Kind::IterOwn,
        Kind::IterOwn,
        Kind::IterRef,
        Kind::Range,
        Kind::ClonedIterRef,
    ]);
    k
}

fn threads_delivering(h: &History) -> usize {
    let mut s = std::collections::HashSet::new();
    for o in &h.ops {
        if o.delivered_any() {
            s.insert(o.thread);
        }
    }
    s.len()
}

fn timed_pulls(h: &History) -> Vec<&OpRec> {
    h.ops
        .iter()
        .filter(|o| o.is_pull() && o.call != UNTIMED)
        .collect()
}

fn overlaps(a: &OpRec, b: &OpRec) -> bool {
    a.thread != b.thread && !(a.ret < b.call || b.ret < a.call)
}

fn sched_classes(h: &History) -> Vec<&'static str> {
    let mut c = vec![crate::oracle::kind_class(h.case.kind)];
    c.push(match h.case.threads.len() {
        0 | 1 => "threads=1",
        2 => "threads=2",
        3 => "threads=3",
        _ => "threads>=4",
    });
    c.push(match h.sched.switches {
        0 => "switches=0",
        1..=3 => "switches=1-3",
        _ => "switches>=4",
    });
    if h.sched.switches_in_op > 0 {
        c.push("switch-inside-op");
    }
    if h.sched.spin_episodes > 0 {
        c.push("waiter-seen");
    }
    if h.sched.hang {
        c.push("hang");
    }
    if h.sched.step_bound_hit {
        c.push("step-bound");
    }
    if h.ops.iter().any(|o| matches!(&o.res, Res::Chunk { announced, .. } if *announced < o.requested())) {
        c.push("short-chunk");
    }
    if h.ops.iter().any(|o| matches!(&o.res, Res::Chunk { announced, items, .. } if items.len() < *announced)) {
        c.push("partial-consumption");
    }
    if h.ops.iter().any(|o| matches!(o.res, Res::End)) {
        c.push("end-reached");
    }
    c
}

fn undecided(h: &History) -> bool {
    h.sched.hang || h.sched.step_bound_hit
}

fn finish(h: &History, verdict: Verdict, nontrivial: bool, mut classes: Vec<&'static str>) -> Outcome {
    if nontrivial {
        classes.push("non-trivial");
    }
    let mut o = outcome(h, verdict, nontrivial, classes);
    o.inconclusive = h.sched.step_bound_hit;
    o
}

fn panic_guard(h: &History) -> Verdict {
    match oracle::unexpected_panic(h) {
        Some(m) => Err(Violation {
            what: "panic",
            detail: m,
        }),
        None => Ok(()),
    }
}

// ------------------------------------------------------------------------------------------------
// judges: History -> Outcome

pub fn judge_c01(h: &History) -> Outcome {
    let verdict = if undecided(h) {
        Ok(()) // a hang is C09's verdict; nothing can be said about delivery here
    } else {
        oracle::c01_exactly_once(h)
    };
    let nontrivial = h.case.threads.len() >= 2 && h.sched.switches >= 1 && threads_delivering(h) >= 2;
    finish(h, verdict, nontrivial, sched_classes(h))
}

pub fn judge_c02(h: &History) -> Outcome {
    let verdict = oracle::c02_index_fidelity(h);
    let shortish = h.ops.iter().any(|o| {
        matches!(&o.res, Res::Chunk { announced, items, .. } if *announced < o.requested() || items.len() < *announced)
    });
    let indexed = h
        .ops
        .iter()
        .any(|o| matches!(&o.res, Res::One { idx: Some(_), .. } | Res::Chunk { .. }));
    let nontrivial = indexed
        && ((shortish && threads_delivering(h) >= 2 && h.sched.switches >= 1) || h.sched.spin_episodes >= 2);
    finish(h, verdict, nontrivial, sched_classes(h))
}

pub fn judge_c03(h: &History) -> Outcome {
    let verdict = panic_guard(h).and_then(|_| oracle::c03_chunk_contract(h));
    // (a) partially consumed buffered chunk followed by another pull on the same buffer
    let mut a = false;
    for (i, o) in h.ops.iter().enumerate() {
        if let (Tag::BufNext { .. }, Res::Chunk { announced, items, .. }) = (&o.tag, &o.res) {
            if items.len() < *announced {
                if h.ops[i + 1..]
                    .iter()
                    .any(|p| p.thread == o.thread && matches!(p.tag, Tag::BufNext { .. }) && p.op_idx > o.op_idx)
                {
                    a = true;
                }
            }
        }
    }
    // (b) a short final chunk racing with a single pull of another thread
    let mut b = false;
    for o in h.ops.iter() {
        if let Res::Chunk { announced, .. } = &o.res {
            if *announced < o.requested() {
                if h.ops.iter().any(|p| {
                    matches!(p.tag, Tag::Next | Tag::NextIdVal) && p.call != UNTIMED && (overlaps(o, p) || (h.sched.sequential && p.thread != o.thread))
                }) {
                    b = true;
                }
            }
        }
    }
    let mut cl = sched_classes(h);
    if a {
        cl.push("partial-buffered-then-next-pull");
    }
    if b {
        cl.push("short-chunk-vs-single-pull");
    }
    finish(h, verdict, a || b, cl)
}

pub fn judge_c04(h: &History) -> Outcome {
    let mut states = 0;
    let verdict = if undecided(h) {
        Ok(())
    } else {
        panic_guard(h)
            .and_then(|_| oracle::c04_invariants(h))
            .and_then(|_| oracle::prefix_at_quiescence(h).map(|_| ()))
            .and_then(|_| match oracle::c04_linearizable(h) {
                Ok(Some(s)) => {
                    states = s;
                    Ok(())
                }
                Ok(None) => Ok(()),
                Err(v) => Err(v),
            })
    };
    let pulls = timed_pulls(h);
    let mut ordered = false;
    let mut concurrent = false;
    for a in &pulls {
        for b in &pulls {
            if a.thread != b.thread {
                if a.ret < b.call {
                    ordered = true;
                }
                if overlaps(a, b) {
                    concurrent = true;
                }
            }
        }
    }
    let mut cl = sched_classes(h);
    if states > 0 {
        cl.push("linearizability-searched");
    }
    if ordered {
        cl.push("real-time-ordered-pair");
    }
    if concurrent {
        cl.push("concurrent-pair");
    }
    let nontrivial = if h.sched.sequential {
        // sequential engine: mixed operations up to and past the end
        crate::props::distinct_tags(h) >= 2 && h.ops.len() >= 3
    } else {
        h.case.threads.len() >= 2 && ordered && concurrent
    };
    finish(h, verdict, nontrivial, cl)
}

pub fn judge_c05(h: &History) -> Outcome {
    let verdict = oracle::c05_end_is_permanent(h);
    let first_end = h
        .ops
        .iter()
        .filter(|o| o.is_pull() && matches!(o.res, Res::End) && o.requested() > 0 && o.ret != UNTIMED)
        .map(|o| o.ret)
        .min();
    let (mut after, mut chunk_after) = (0, false);
    if let Some(r) = first_end {
        for o in &h.ops {
            if o.is_pull() && o.call != UNTIMED && o.call > r {
                after += 1;
                if matches!(o.tag, Tag::Chunk { .. } | Tag::BufNext { .. }) {
                    chunk_after = true;
                }
            }
        }
    }
    let mut cl = sched_classes(h);
    if h.sched.spin_episodes > 0 && first_end.is_some() {
        cl.push("end-with-waiters");
    }
    cl.push(match after {
        0 => "pulls-after-end=0",
        1..=4 => "pulls-after-end=1-4",
        5..=20 => "pulls-after-end=5-20",
        _ => "pulls-after-end>20",
    });
    finish(h, verdict, after >= 5 && chunk_after, cl)
}

pub fn judge_c06(h: &History) -> Outcome {
    // "elements delivered before it stay valid": for consuming kinds the ownership ledger is part of the oracle
    let verdict = if h.sched.hang {
        Ok(())
    } else {
        let has_skip = h.ops.iter().any(|o| o.tag == Tag::Skip);
        oracle::c06_skip(h).and_then(|_| if has_skip && h.case.kind.consuming() && !h.sched.step_bound_hit { oracle::c08_exactly_once_ownership(h) } else { Ok(()) })
    };
    let skips: Vec<&OpRec> = h.ops.iter().filter(|o| o.tag == Tag::Skip).collect();
    let pulls = timed_pulls(h);
    let concurrent_skip = skips.iter().any(|s| pulls.iter().any(|p| overlaps(s, p)));
    let first_skip_ret = skips.iter().map(|s| s.ret).min();
    let mut after = 0usize;
    let mut delivered_before = 0usize;
    if let Some(r) = first_skip_ret {
        for p in &pulls {
            if p.call > r {
                after += 1;
            } else if p.delivered_any() {
                delivered_before += 1;
            }
        }
    }
    let many_after = h.case.kind.wrapped() && first_skip_ret.is_some() && after >= delivered_before + 2;
    let mut cl = sched_classes(h);
    if concurrent_skip {
        cl.push("skip-concurrent-with-pull");
    }
    if many_after {
        cl.push("many-pulls-after-skip");
    }
    if skips.len() >= 2 {
        cl.push("several-skips");
    }
    if first_skip_ret.is_some() && delivered_before == 0 {
        cl.push("skip-before-any-delivery");
    }
    let seq = h.sched.sequential;
    let nontrivial = if seq {
        first_skip_ret.is_some() && after >= 1
    } else {
        concurrent_skip || many_after
    };
    finish(h, verdict, nontrivial, cl)
}

/// C16 under schedules: pulls with boundary chunk sizes racing with each other; the verdict is the one-cursor
/// model in u128 arithmetic (no duplicate, no out-of-range or wrapped position, gap-free prefix, linearizable).
pub fn judge_c16(h: &History) -> Outcome {
    let verdict = if undecided(h) {
        Ok(())
    } else {
        panic_guard(h)
            .and_then(|_| oracle::no_duplicates(h))
            .and_then(|_| oracle::c02_index_fidelity(h))
            .and_then(|_| oracle::c04_invariants(h))
            .and_then(|_| oracle::prefix_at_quiescence(h).map(|_| ()))
            .and_then(|_| oracle::c04_linearizable(h).map(|_| ()))
    };
    let huge = h.ops.iter().filter(|o| o.is_pull() && o.requested() > usize::MAX / 5).count();
    let threads_with_huge = {
        let mut t: Vec<usize> = h.ops.iter().filter(|o| o.is_pull() && o.requested() > usize::MAX / 5).map(|o| o.thread).collect();
        t.sort();
        t.dedup();
        t.len()
    };
    let mut cl = sched_classes(h);
    if threads_with_huge >= 2 {
        cl.push("racing-boundary-sizes");
    }
    if threads_with_huge >= 3 {
        cl.push("three-or-more-threads-with-boundary-sizes");
    }
    let nontrivial = huge >= 2 && threads_with_huge >= 2 && h.sched.switches_in_op >= 1;
    finish(h, verdict, nontrivial, cl)
}

fn eval_c16(case: &Case) -> Outcome {
    judge_c16(&run_sched(case))
}

pub fn judge_c07(h: &History) -> Outcome {
    let verdict: Verdict = oracle::c07_exclusive_ordered(h);
    let nontrivial = h.sched.probe_handoffs >= 1;
    let mut cl = sched_classes(h);
    if h.sched.probe_handoffs >= 1 {
        cl.push("probe-handoff");
    }
    if h.sched.unmodelled_sync {
        cl.push("hb-oracle-off(unmodelled-sync)");
    }
    finish(h, verdict, nontrivial, cl)
}

pub fn judge_c09(h: &History) -> Outcome {
    let verdict = oracle::c09_progress(h);
    let mut cl = sched_classes(h);
    let active_others = h
        .case
        .threads
        .iter()
        .enumerate()
        .filter(|(i, t)| Some(*i) != h.case.freeze.map(|f| f.0) && !t.is_empty())
        .count();
    let nontrivial = if h.case.kind.wrapped() {
        h.sched.spin_episodes >= 1
    } else {
        h.sched.froze && h.sched.frozen_inside_op && active_others >= 2
    };
    if h.sched.froze {
        cl.push("froze");
    }
    if h.sched.frozen_inside_op {
        cl.push("froze-inside-op");
    }
    finish(h, verdict, nontrivial, cl)
}

pub fn judge_c11_racing(h: &History) -> Outcome {
    let verdict = if undecided(h) { Ok(()) } else { oracle::c11_racing(h) };
    let queries: Vec<&OpRec> = h
        .ops
        .iter()
        .filter(|o| matches!(o.tag, Tag::Len | Tag::HasMore))
        .collect();
    let pulls = timed_pulls(h);
    let racing = queries.iter().any(|q| pulls.iter().any(|p| overlaps(q, p)));
    let no_while_inflight = queries.iter().any(|q| {
        matches!(q.res, Res::Len(Some(0)) | Res::Has(HasRec::No)) && pulls.iter().any(|p| overlaps(q, p) && p.delivered_any())
    });
    let mut cl = sched_classes(h);
    if racing {
        cl.push("query-racing-with-pull");
    }
    if no_while_inflight {
        cl.push("no-while-delivery-in-flight");
    }
    finish(h, verdict, racing && queries.len() >= 2, cl)
}

pub fn judge_c11_quiescent(h: &History) -> Outcome {
    let verdict = panic_guard(h).and_then(|_| oracle::c11_quiescent(h));
    let len = h.info.len;
    let mut pos: u128 = 0;
    let mut mid_query = false;
    let mut zero_query = false;
    for o in &h.ops {
        if o.is_pull() {
            pos += o.requested() as u128;
        }
        if matches!(o.tag, Tag::Len | Tag::HasMore) {
            if pos > 0 && pos < len as u128 {
                mid_query = true;
            }
            if pos >= len as u128 {
                zero_query = true;
            }
        }
    }
    let mut cl = sched_classes(h);
    if mid_query {
        cl.push("query-in-the-middle");
    }
    if zero_query {
        cl.push("query-at-or-past-end");
    }
    if h.case.kind.wrapped() {
        cl.push(match h.case.hint {
            Hint::Exact => "hint-exact",
            Hint::Inexact => "hint-inexact",
            Hint::Unbounded => "hint-unbounded",
        });
    }
    finish(h, verdict, mid_query, cl)
}

pub fn judge_c12(h: &History) -> Outcome {
    let verdict = if h.sched.hang {
        Err(Violation {
            what: "hang",
            detail: "a for_each / enumerate_for_each / fold call (or a direct pull next to it) never returns: every unfinished thread spins on unchanged memory".into(),
        })
    } else if h.sched.step_bound_hit {
        Ok(())
    } else {
        oracle::c12_for_each_fold(h)
    };
    let mut sizes = std::collections::HashSet::new();
    let mut composite_threads = 0;
    for t in &h.case.threads {
        for op in t {
            if let Op::Drain(how @ (How::ForEach(_) | How::EnumForEach(_) | How::Fold(_))) = op {
                sizes.insert(how.chunk_size());
                composite_threads += 1;
                break;
            }
        }
    }
    let nontrivial = composite_threads >= 2 && sizes.len() >= 2 && sizes.contains(&1);
    let mut cl = sched_classes(h);
    if sizes.contains(&1) {
        cl.push("chunk-size-1-path");
    }
    if sizes.iter().any(|s| *s > 1) {
        cl.push("buffered-path");
    }
    finish(h, verdict, nontrivial, cl)
}

pub fn judge_c18(h: &History) -> Outcome {
    let fired = h
        .ops
        .iter()
        .any(|o| matches!(&o.res, Res::Panicked(m) if m == crate::hooks::INJECTED))
        || matches!(&h.term, crate::history::TermRes::Panicked(m) if m == crate::hooks::INJECTED);
    let verdict = if h.sched.step_bound_hit { Ok(()) } else { oracle::c18_panic_containment(h) };
    let mut cl = sched_classes(h);
    if fired {
        cl.push("fault-fired");
    }
    if h.sched.waiters_at_fault > 0 {
        cl.push("others-in-flight-at-fault");
    }
    if let Some(f) = h.case.fault {
        cl.push(match f.site {
            FaultSite::ProbeNext => "site=probe-next",
            FaultSite::Clone => "site=clone",
            FaultSite::Closure => "site=closure",
            FaultSite::Drop => "site=drop",
        });
    }
    let seq = h.sched.sequential;
    let later_ops = h.ops.iter().any(|o| o.is_pull() && !matches!(o.res, Res::Panicked(_))) && h.case.threads.len() >= 2;
    finish(h, verdict, fired && (h.sched.waiters_at_fault > 0 || (seq && later_ops)), cl)
}

pub fn judge_c08(h: &History) -> Outcome {
    let verdict = if undecided(h) {
        Ok(())
    } else {
        panic_guard(h).and_then(|_| oracle::c08_exactly_once_ownership(h))
    };
    let unconsumed_chunk = h.ops.iter().any(|o| matches!(&o.res, Res::Chunk { announced, items, .. } if items.len() < *announced));
    let (pos, skipped) = crate::props::cursor(h);
    let undelivered = skipped || pos < h.info.len as u128;
    let skips = h.ops.iter().filter(|o| o.tag == Tag::Skip).count();
    let mut cl = sched_classes(h);
    if unconsumed_chunk {
        cl.push("unconsumed-chunk-part");
    }
    if skips >= 2 {
        cl.push("several-skips");
    }
    cl.push(if matches!(h.case.terminal, Terminal::Drop) { "ends-in-drop" } else { "ends-in-into_seq" });
    let nontrivial = h.case.threads.len() >= 2 && h.sched.switches >= 1 && (undelivered || unconsumed_chunk);
    finish(h, verdict, nontrivial, cl)
}

pub fn judge_c10(h: &History) -> Outcome {
    let verdict = if undecided(h) {
        Ok(())
    } else {
        panic_guard(h).and_then(|_| oracle::c10_into_seq(h))
    };
    let nontrivial = h.case.threads.len() >= 2 && h.sched.switches >= 1 && matches!(h.term, crate::history::TermRes::Seq { .. }) && threads_delivering(h) >= 1;
    finish(h, verdict, nontrivial, sched_classes(h))
}

// ------------------------------------------------------------------------------------------------
// evaluation functions

macro_rules! evals {
    ($($name:ident, $seq:ident, $dfs:ident => $judge:ident;)*) => {
        $(
            pub fn $name(case: &Case) -> Outcome { $judge(&run_sched(case)) }
            pub fn $seq(case: &Case) -> Outcome { $judge(&run_seq(case)) }
            pub fn $dfs(case: &Case) -> Outcome { dfs(case, $judge) }
        )*
    };
}

evals! {
    eval_c01, eval_c01_seq, eval_c01_dfs => judge_c01;
    eval_c02, eval_c02_seq, eval_c02_dfs => judge_c02;
    eval_c03, eval_c03_seq, eval_c03_dfs => judge_c03;
    eval_c04, eval_c04_seq, eval_c04_dfs => judge_c04;
    eval_c05, eval_c05_seq, eval_c05_dfs => judge_c05;
    eval_c06, eval_c06_seq, eval_c06_dfs => judge_c06;
    eval_c07, eval_c07_seq, eval_c07_dfs => judge_c07;
    eval_c08, eval_c08_seq_unused, eval_c08_dfs => judge_c08;
    eval_c10, eval_c10_seq_unused, eval_c10_dfs => judge_c10;
    eval_c09, eval_c09_seq, eval_c09_dfs => judge_c09;
    eval_c11, eval_c11_seq_unused, eval_c11_dfs => judge_c11_racing;
    eval_c12, eval_c12_seq, eval_c12_dfs => judge_c12;
    eval_c18, eval_c18_seq, eval_c18_dfs => judge_c18;
}

/// C13 under the schedule engine: adaptor and underlying iterator run the same program under the same
/// *coarse* schedule: threads are switched only at semantic points (before the first shared action of an
/// elementary operation, inside the wrapped probe, at closure invocations, when the running thread
/// waits); element clones are not yield points. The interleaving a schedule denotes therefore does not
/// depend on how many atomic accesses an operation performs, and the two executions can be compared
/// thread by thread.
/// C13 with an injected clone panic that the caller catches (single-threaded, no preemption): the operation in
/// which the clone panicked is not compared, every later operation must equal the underlying iterator's.
pub fn eval_c13_after_clone_panic(case: &Case) -> Outcome {
    // the caller always goes on after the caught panic here (that is the point of the comparison)
    let mut acase = case.clone();
    acase.keep_going = true;
    let case = &acase;
    let ha = run_seq_e1(case);
    let mut ucase = case.clone();
    ucase.kind = case.kind.underlying();
    ucase.fault = None;
    let hu = run_seq_e1(&ucase);
    let verdict = if ha.sched.step_bound_hit || hu.sched.step_bound_hit || ha.sched.hang || hu.sched.hang { Ok(()) } else { crate::lockstep::compare(&ha, &hu) };
    let fired_at = ha.ops.iter().position(|o| matches!(&o.res, Res::Panicked(m) if m == crate::hooks::INJECTED));
    let later_chunk = fired_at.map_or(false, |i| ha.ops[i + 1..].iter().any(|o| matches!(o.res, Res::Chunk { .. } | Res::One { .. })));
    let mut cl = vec![case.kind.name()];
    if fired_at.is_some() {
        cl.push("fault-fired");
    }
    let mut o = finish(&ha, verdict, fired_at.is_some() && later_chunk, cl);
    o.evals = 2;
    o
}

pub fn eval_c13(case: &Case) -> Outcome {
    if case.fault.is_some() {
        return eval_c13_after_clone_panic(case);
    }
    crate::hooks::set_clone_yields(false);
    crate::hooks::set_coarse(true);
    let ha = run_sched(case);
    let mut ucase = case.clone();
    ucase.kind = case.kind.underlying();
    let hu = run_sched(&ucase);
    crate::hooks::set_clone_yields(true);
    crate::hooks::set_coarse(false);
    let verdict = if ha.sched.step_bound_hit || hu.sched.step_bound_hit {
        Ok(())
    } else if ha.sched.hang || hu.sched.hang {
        if ha.sched.hang != hu.sched.hang {
            Err(Violation {
                what: "end-or-skip-differs",
                detail: format!("under the same schedule the adaptor {} and the underlying iterator {}", if ha.sched.hang { "hangs" } else { "completes" }, if hu.sched.hang { "hangs" } else { "completes" }),
            })
        } else {
            Ok(())
        }
    } else {
        let mut a = ha.clone();
        let mut u = hu.clone();
        a.ops.sort_by_key(|o| o.thread);
        u.ops.sort_by_key(|o| o.thread);
        crate::lockstep::compare(&a, &u)
    };
    let has = |f: &dyn Fn(&Tag) -> bool| ha.ops.iter().any(|o| f(&o.tag));
    let chunk = has(&|t| matches!(t, Tag::Chunk { .. } | Tag::BufNext { .. }));
    let skip = has(&|t| matches!(t, Tag::Skip));
    let mut cl = sched_classes(&ha);
    cl.push(case.kind.name());
    if skip {
        cl.push("skip");
    }
    let nontrivial = case.threads.len() >= 2 && ha.sched.switches >= 1 && (chunk || skip);
    let mut o = finish(&ha, verdict, nontrivial, cl);
    o.evals = 2;
    o
}

/// C15 on the schedule engine: the allocation balance of a whole concurrent case (generated schedule) is zero.
pub fn eval_c15(case: &Case) -> Outcome {
    // warm-up outside the gate: coroutine stack pool, ledger, thread-local environment
    let w = run_sched(case);
    let undecided_case = undecided(&w);
    let classes = sched_classes(&w);
    let (pos, skipped) = crate::props::cursor(&w);
    let undelivered = skipped || pos < w.info.len as u128;
    let switches = w.sched.switches;
    let panicked = oracle::unexpected_panic(&w);
    drop(w);
    let mut balances = vec![];
    if !undecided_case && panicked.is_none() {
        for _ in 0..2 {
            let (_, bytes, blocks) = crate::alloc::gated(|| {
                let h = run_sched(case);
                drop(h);
            });
            balances.push((bytes, blocks));
        }
    }
    let verdict = if let Some(m) = panicked {
        Err(Violation { what: "panic", detail: m })
    } else if balances.iter().any(|b| *b != (0, 0)) {
        Err(Violation {
            what: if balances.iter().any(|b| b.0 > 0 || b.1 > 0) { "leak" } else { "negative-balance" },
            detail: format!(
                "after concurrent use under this schedule and after everything was dropped, the allocation balance of the case is {} bytes in {} blocks (first run) and {} bytes in {} blocks (repetition); expected 0/0",
                balances[0].0, balances[0].1, balances[1].0, balances[1].1
            ),
        })
    } else {
        Ok(())
    };
    Outcome {
        verdict,
        sig_ctx: crate::oracle::kind_class(case.kind).to_string(),
        nontrivial: case.threads.len() >= 2 && switches >= 1 && undelivered,
        classes,
        inconclusive: undecided_case,
        evals: 3,
        dfs: None,
        witness: None,
    }
}

pub fn eval_c11_seq(case: &Case) -> Outcome {
    judge_c11_quiescent(&run_seq(case))
}

/// (max preemptions, max schedules per program): quick tier 2 / 4000, thorough tier 3 / 20000
pub fn dfs_bounds() -> (usize, u64) {
    static T: std::sync::OnceLock<bool> = std::sync::OnceLock::new();
    let thorough = *T.get_or_init(|| std::env::var("VERIF_DFS_DEEP").is_ok());
    if thorough {
        (3, 20_000)
    } else {
        (2, 4_000)
    }
}

/// Enumerates every schedule of the case's program with at most DFS_MAX_PREEMPT preemptions
/// (stateless DFS with replay). The first violating schedule is returned as the witness case.
pub fn dfs(case: &Case, judge: fn(&History) -> Outcome) -> Outcome {
    let (max_preempt, max_leaves) = dfs_bounds();
    let mut ch = DfsChooser::new(max_preempt);
    let mut leaves = 0u64;
    let mut any_nontrivial = false;
    let mut classes: Vec<&'static str> = vec![];
    let unm = unmodelled_sync();
    let mut truncated = false;
    let mut inconclusive = false;
    loop {
        ch.pos = 0;
        ch.preempts = 0;
        ch.log.clear();
        let h = run_sched_with(case, &mut ch, unm);
        leaves += 1;
        let o = judge(&h);
        inconclusive |= o.inconclusive;
        if o.verdict.is_err() {
            let mut w = case.clone();
            w.sched = ch.log.clone();
            let mut o = o;
            o.witness = Some(w);
            o.evals = leaves;
            o.dfs = Some(false);
            return o;
        }
        if o.nontrivial && !any_nontrivial {
            any_nontrivial = true;
            classes = o.classes;
        } else if classes.is_empty() {
            classes = o.classes;
        }
        if leaves >= max_leaves {
            truncated = true;
            break;
        }
        if !ch.advance() {
            break;
        }
    }
    classes.retain(|c| !c.starts_with("switches"));
    classes.push(if truncated { "dfs-truncated" } else { "dfs-complete" });
    let mut o = Outcome::ok(any_nontrivial, classes);
    o.evals = leaves;
    o.inconclusive = inconclusive;
    o.dfs = Some(!truncated);
    o
}

// ------------------------------------------------------------------------------------------------
// generator presets

fn cfg_e1(thorough: bool) -> GenCfg {
    let mut c = GenCfg::base(&e1_kinds());
    c.extra_cap = true;
    c.max_len = if thorough { 40 } else { 12 };
    c.min_threads = 1;
    c.max_threads = 4;
    c.max_ops = if thorough { 6 } else { 4 };
    c.sched_len = if thorough { 400 } else { 160 };
    c
}

fn cfg_small(kinds: &[Kind]) -> GenCfg {
    // small programs for exhaustive schedule enumeration
    let mut c = GenCfg::base(kinds);
    c.max_len = 5;
    c.min_threads = 2;
    c.max_threads = 3;
    c.max_ops = 2;
    c.w_loops = 0;
    c.w_drain_elem = 0;
    c.sched_len = 0;
    c.large = 0;
    c.long_spins = false;
    c
}

fn cfg_c01(thorough: bool) -> GenCfg {
    let mut c = cfg_e1(thorough);
    c.end_with_drain = true;
    c.end_drain_composite = true;
    c.w_drain_composite = 1;
    c
}

fn cfg_c03(thorough: bool) -> GenCfg {
    let mut c = cfg_e1(thorough);
    c.layouts = vec![Layout::Tracked, Layout::Tracked, Layout::Zst];
    c.w_chunk = 8;
    c.w_bufnew = 3;
    c.w_bufnext = 10;
    c.w_next = 3;
    c.w_nextid = 3;
    c.w_loops = 1;
    c.max_ops = 7;
    c
}

fn cfg_c05(thorough: bool) -> GenCfg {
    let mut c = cfg_e1(thorough);
    c.huge_chunks = true;
    c.max_len = if thorough { 24 } else { 8 };
    c.end_with_drain = true;
    c.w_skip = 1;
    c.extra_after_end = if thorough { 200 } else { 40 };
    c.w_len = 1;
    c.w_has = 1;
    c.sched_len = if thorough { 600 } else { 240 };
    c
}

fn cfg_c06(thorough: bool) -> GenCfg {
    let mut c = cfg_e1(thorough);
    c.huge_chunks = true;
    c.max_len = if thorough { 24 } else { 8 };
    c.w_skip = 3;
    c.w_has = 2;
    c.w_len = 1;
    c.max_ops = 6;
    c.extra_after_end = if thorough { 40 } else { 16 };
    c
}

fn cfg_c07(thorough: bool) -> GenCfg {
    let mut c = GenCfg::base(WRAPPED);
    c.max_len = if thorough { 24 } else { 10 };
    c.min_threads = 2;
    c.max_threads = 4;
    c.max_ops = 5;
    c.w_skip = 1;
    c.sched_len = if thorough { 400 } else { 200 };
    c.terminal_mode = 2;
    c
}

fn cfg_c09(thorough: bool, known: bool) -> GenCfg {
    let mut c = if known { GenCfg::base(KNOWN_SIZE) } else { GenCfg::base(WRAPPED) };
    c.max_len = if thorough { 24 } else { 10 };
    c.min_threads = if known { 3 } else { 2 };
    c.max_threads = 4;
    c.max_ops = 5;
    c.w_skip = 1;
    c.w_len = 1;
    c.w_drain_elem = 2;
    c.w_drain_composite = 1;
    c.freeze = known;
    c.sched_len = if thorough { 400 } else { 200 };
    c
}

fn cfg_c11(thorough: bool, seq: bool) -> GenCfg {
    let mut c = cfg_e1(thorough);
    c.huge_chunks = true;
    c.w_len = 5;
    c.w_has = 5;
    c.w_skip = 1;
    if seq {
        c.sched_len = 0;
        c.max_len = if thorough { 40 } else { 24 };
        c.max_threads = 3;
        c.max_ops = 8;
    }
    c
}

fn cfg_c12(thorough: bool) -> GenCfg {
    let mut c = cfg_e1(thorough);
    c.max_ops = 2;
    c.end_with_drain = true;
    c.end_drain_composite = true;
    c.end_drain_only_composite = true;
    c.min_threads = 1;
    c
}

fn cfg_c18(thorough: bool) -> GenCfg {
    let mut kinds = WRAPPED.to_vec();
    kinds.extend_from_slice(&[Kind::IterOwn, Kind::IterOwn, Kind::ClonedSlice, Kind::ClonedVecRef, Kind::VecOwn, Kind::ArrOwn, Kind::ClonedIterRef]);
    let mut c = GenCfg::base(&kinds);
    c.max_len = if thorough { 16 } else { 8 };
    c.min_threads = 2;
    c.max_threads = 4;
    c.max_ops = 3;
    c.end_with_drain = true;
    c.end_drain_composite = true;
    c.w_drain_composite = 1;
    c.fault_sites = vec![FaultSite::ProbeNext, FaultSite::ProbeNext, FaultSite::Clone, FaultSite::Closure];
    c.sched_len = if thorough { 400 } else { 200 };
    c.terminal_mode = 2;
    c
}

fn seq_of(mut c: GenCfg, thorough: bool) -> GenCfg {
    c.sched_len = 0;
    c.max_threads = 3;
    c.max_len = if thorough { 40 } else { 24 };
    c.max_ops = 10;
    c
}

// ------------------------------------------------------------------------------------------------

/// multiplier of the quick budgets of all campaigns of the schedule engine
const E1_BOOST: u64 = 40;

struct Plan {
    name: &'static str,
    cfg: GenCfg,
    eval: fn(&Case) -> Outcome,
    quick: u64,
    thorough_factor: u64,
}

fn run_plans(ctx: &mut Ctx, plans: Vec<Plan>, rule: &str) {
    for p in plans {
        let cfg = p.cfg.clone();
        // coroutine stacks are reused, which made the engine ~30x faster than when the budgets were first set
        let n = scale_cases(ctx, p.quick * E1_BOOST, p.thorough_factor);
        if n == 0 || p.quick == 0 {
            continue;
        }
        ctx.run_campaign(&Campaign {
            name: p.name.into(),
            cases: n,
            make_strategy: &|| case_strategy(&cfg),
            run: &p.eval,
            rule: rule.to_string(),
        });
    }
}

pub fn check(ctx: &mut Ctx) -> Option<Meta> {
    let thorough = ctx.tier == "thorough";
    let t = thorough;
    if thorough {
        std::env::set_var("VERIF_DFS_DEEP", "1");
    }
    // small-scope exhaustive enumeration only in the thorough tier (quick: a small sample of it)
    let dfsq: u64 = 150;
    let (rule, plans): (String, Vec<Plan>) = match ctx.prop.as_str() {
        "C01" => (
            "E1 deterministic-schedule histories: all source kinds, 1-4 virtual threads, mixed pulling operations, every thread ends with a drain by a generated method, no skip; oracle: every source position delivered exactly once (by value, identity and claimed index); non-trivial = >=2 threads, >=1 context switch between unfinished threads, >=2 threads received elements; dfs campaign: all schedules with <=2 preemptions of small programs; distinct by case hash".into(),
            vec![
                Plan { name: "sched-exactly-once", cfg: cfg_c01(t), eval: eval_c01, quick: 40_000, thorough_factor: 25 },
                Plan { name: "sched-exactly-once-unwinding-puller", cfg: { let mut c = cfg_c01(t); c.min_threads = 2; c.unwind_pull = true; c }, eval: eval_c01, quick: 15_000, thorough_factor: 25 },
                Plan { name: "sched-dfs-exactly-once", cfg: { let mut c = cfg_small(&e1_kinds()); c.end_with_drain = true; c.max_ops = 1; c }, eval: eval_c01_dfs, quick: dfsq, thorough_factor: 4 },
            ],
        ),
        "C02" => (
            "E1 histories (as C01, drains optional) + E2 sequential histories; oracle: every (index, value) pair returned by next_id_and_value, chunk begin+offset, ids_and_values and enumerate_for_each equals the source element at that index (value, identity, address for references); non-trivial = indexed delivery with a short or partly consumed chunk under >=2 delivering threads and >=1 switch, or >=2 released waiters".into(),
            vec![
                Plan { name: "sched-index", cfg: { let mut c = cfg_e1(t); c.w_drain_composite = 1; c.w_drain_elem = 2; c.w_skip = 1; c.min_threads = 2; c }, eval: eval_c02, quick: 40_000, thorough_factor: 25 },
                Plan { name: "sched-index-after-panic", cfg: { let mut c = cfg_e1(t); c.kinds = WRAPPED.to_vec(); c.kinds.extend_from_slice(&[Kind::ClonedSlice, Kind::VecOwn]); c.fault_sites = vec![FaultSite::ProbeNext, FaultSite::ProbeNext, FaultSite::Clone, FaultSite::Closure]; c.w_drain_composite = 1; c.w_drain_elem = 2; c.min_threads = 2; c }, eval: eval_c02, quick: 20_000, thorough_factor: 25 },
                Plan { name: "seq-index", cfg: seq_of({ let mut c = cfg_e1(t); c.w_drain_composite = 1; c }, t), eval: eval_c02_seq, quick: 60_000, thorough_factor: 25 },
            ],
        ),
        "C03" => (
            "E1 + E2 histories dense in one-shot and buffered chunk pulls with sizes 1..len+3 and partial consumption; oracle: 1 <= len <= n, len() decreases by one per item and equals the number yielded, items are src[begin..begin+len], shorter than n only at the end of the source; non-trivial = partly consumed buffered chunk followed by another pull on the same buffer, or a short final chunk racing with a single pull of another thread".into(),
            vec![
                Plan { name: "sched-chunks", cfg: cfg_c03(t), eval: eval_c03, quick: 40_000, thorough_factor: 25 },
                Plan { name: "seq-chunks", cfg: seq_of(cfg_c03(t), t), eval: eval_c03_seq, quick: 200_000, thorough_factor: 25 },
            ],
        ),
        "C04" => (
            "E1 histories with skips + E2 single-threaded sequences; oracle: (a) Wing-Gong linearizability search of the timed pulls/skips against the one-cursor model (memoised on per-thread prefixes), (b) per-thread increasing positions, real-time order implies position order, gap-free prefix at quiescence; non-trivial (E1) = >=2 threads with a real-time-ordered pair and a concurrent pair of pulls on different threads; (E2) = >=3 operations of >=2 kinds".into(),
            vec![
                Plan { name: "sched-linearizable", cfg: { let mut c = cfg_e1(t); c.w_skip = 1; c }, eval: eval_c04, quick: 40_000, thorough_factor: 25 },
                Plan { name: "sched-linearizable-huge-chunks", cfg: { let mut c = cfg_e1(t); c.w_skip = 1; c.huge_chunks = true; c.w_chunk = 8; c.min_threads = 2; c }, eval: eval_c04, quick: 20_000, thorough_factor: 25 },
                Plan { name: "seq-cursor", cfg: seq_of({ let mut c = cfg_e1(t); c.w_skip = 1; c.max_threads = 1; c }, t), eval: eval_c04_seq, quick: 200_000, thorough_factor: 25 },
                Plan { name: "sched-dfs-linearizable", cfg: { let mut c = cfg_small(&e1_kinds()); c.w_skip = 1; c }, eval: eval_c04_dfs, quick: dfsq, thorough_factor: 4 },
            ],
        ),
        "C05" => (
            "E1 + E2 histories that drain and then continue with up to 40 (thorough: 200) further pulls of all kinds; oracle: after the first end report every later-called pull reports the end and no length query is positive; non-trivial = >=5 pulls called after the first end report, at least one of them a chunk pull".into(),
            vec![
                Plan { name: "sched-past-end", cfg: cfg_c05(t), eval: eval_c05, quick: 40_000, thorough_factor: 25 },
                Plan { name: "seq-past-end", cfg: seq_of(cfg_c05(t), t), eval: eval_c05_seq, quick: 100_000, thorough_factor: 25 },
                // the end can also be reached because the wrapped iterator panicked: still permanent, lengths still not positive
                Plan { name: "sched-past-end-after-panic", cfg: { let mut c = cfg_c05(t); c.kinds = WRAPPED.to_vec(); c.fault_sites = vec![FaultSite::ProbeNext]; c.w_len = 3; c.w_has = 3; c.extra_after_end = 12; c }, eval: eval_c05, quick: 20_000, thorough_factor: 25 },
                Plan { name: "seq-past-end-after-panic", cfg: seq_of({ let mut c = cfg_c05(t); c.kinds = WRAPPED.to_vec(); c.fault_sites = vec![FaultSite::ProbeNext]; c.w_len = 3; c.w_has = 3; c.extra_after_end = 12; c }, t), eval: eval_c05_seq, quick: 40_000, thorough_factor: 25 },
            ],
        ),
        "C06" => (
            "E1 + E2 histories with 1..3 skip_to_end calls at arbitrary points followed by further pulls; oracle: no pull called after a returned skip delivers, has_more is No, and the whole history has no duplicate, per-thread order and index fidelity; non-trivial (E1) = skip overlapping an in-flight pull, or >= delivered+2 pulls after the skip on a wrapped iterator; (E2) = >=1 pull after the skip".into(),
            vec![
                Plan { name: "sched-skip", cfg: cfg_c06(t), eval: eval_c06, quick: 40_000, thorough_factor: 25 },
                Plan { name: "seq-skip", cfg: seq_of(cfg_c06(t), t), eval: eval_c06_seq, quick: 200_000, thorough_factor: 25 },
                Plan { name: "sched-dfs-skip", cfg: { let mut c = cfg_small(&e1_kinds()); c.w_skip = 4; c }, eval: eval_c06_dfs, quick: dfsq, thorough_factor: 4 },
            ],
        ),
        "C07" => (
            "E1 histories on iterators wrapping a harness probe: 2-4 threads mixing single, one-shot, buffered pulls and skip; oracle: (a) the probe's next is never entered while another thread is inside, (b) consecutive executions on different threads are ordered by the vector clocks built from the memory orderings the crate passes to the atomic shim; non-trivial = two consecutive probe executions on different threads".into(),
            vec![
                Plan { name: "sched-probe", cfg: cfg_c07(t), eval: eval_c07, quick: 40_000, thorough_factor: 25 },
                Plan { name: "sched-dfs-probe", cfg: { let mut c = cfg_small(WRAPPED); c.w_skip = 1; c }, eval: eval_c07_dfs, quick: dfsq, thorough_factor: 4 },
            ],
        ),
        "C08" => (
            "E1 part: consuming kinds (Vec, [T;N], owning wrapped iterator) under generated schedules with pulls, partial chunk consumption, buffered pulls and concurrent skip_to_end calls, ending in drop or into_seq_iter; oracle: identity ledger (every element dropped exactly once, never while owned, at most one owner); non-trivial = >=2 threads, >=1 context switch and an undelivered part, skip or unconsumed chunk part".into(),
            vec![
                Plan { name: "sched-ledger", cfg: { let mut c = GenCfg::base(crate::props::CONSUMING); c.max_len = if t { 16 } else { 8 }; c.min_threads = 2; c.max_threads = 4; c.max_ops = 4; c.w_skip = 3; c.terminal_mode = 2; c.sched_len = if t { 300 } else { 120 }; c }, eval: eval_c08, quick: 40_000, thorough_factor: 25 },
                Plan { name: "sched-ledger-after-panic", cfg: { let mut c = GenCfg::base(crate::props::CONSUMING); c.max_len = if t { 16 } else { 8 }; c.min_threads = 1; c.max_threads = 3; c.max_ops = 3; c.w_skip = 1; c.w_drain_composite = 3; c.end_with_drain = true; c.end_drain_composite = true; c.fault_sites = vec![FaultSite::Closure, FaultSite::Closure, FaultSite::ProbeNext]; c.terminal_mode = 2; c.sched_len = 120; c }, eval: eval_c08, quick: 20_000, thorough_factor: 25 },
                Plan { name: "sched-dfs-ledger", cfg: { let mut c = cfg_small(crate::props::CONSUMING); c.w_skip = 4; c.terminal_mode = 2; c }, eval: eval_c08_dfs, quick: dfsq, thorough_factor: 4 },
            ],
        ),
        "C13" => (
            "E1 part: every adaptor kind and its underlying iterator run the same generated multi-threaded program under the same generated *coarse* schedule (threads switch only before the first shared action of an operation, inside the wrapped probe, at closures and when the running thread waits; clones are not yield points), so the interleaving does not depend on the number of atomic accesses per operation; oracle: thread by thread identical results (indices, chunk boundaries, lengths, end / skip behaviour, elements), remainder, source intact; non-trivial = >=2 threads, >=1 context switch and a chunk pull or skip".into(),
            vec![
                Plan { name: "sched-lockstep", cfg: { let mut c = GenCfg::base(crate::props::ADAPTORS); c.kinds.extend_from_slice(&[Kind::ClonedIterRef, Kind::CopiedIterRef, Kind::ClonedIterRef, Kind::CopiedIterRef]); c.max_len = if t { 16 } else { 8 }; c.min_threads = 2; c.max_threads = 4; c.max_ops = 4; c.w_skip = 3; c.w_len = 1; c.w_has = 1; c.terminal_mode = 2; c.pre_pulls = true; c.sched_len = if t { 300 } else { 160 }; c }, eval: eval_c13, quick: 30_000, thorough_factor: 25 },
                // a clone panics inside an operation, the caller catches the panic and goes on with the same iterator
                // and the same buffered handle
                Plan { name: "sched-lockstep-after-clone-panic", cfg: { let mut c = GenCfg::base(&[Kind::ClonedSlice, Kind::ClonedVecRef, Kind::ClonedArrRef, Kind::ClonedIterRef, Kind::ClonedIterRef]); c.max_len = if t { 24 } else { 12 }; c.max_threads = 1; c.max_ops = 8; c.w_bufnext = 9; c.w_bufnew = 3; c.w_chunk = 4; c.w_len = 1; c.w_skip = 1; c.w_loops = 0; c.w_drain_elem = 0; c.fault_sites = vec![FaultSite::Clone]; c.terminal_mode = 2; c.pre_pulls = true; c.large = 0; c }, eval: eval_c13, quick: 20_000, thorough_factor: 25 },
            ],
        ),
        "C15" => (
            "E1 part: consuming kinds with heap-owning element layouts used concurrently under generated schedules (pulls, partial chunks, buffered pulls, skips, drop or into_seq_iter); the whole case runs twice inside the gated counting allocator; oracle: allocation balance exactly zero; non-trivial = >=2 threads, >=1 context switch and an undelivered part".into(),
            vec![
                Plan { name: "sched-alloc-balance", cfg: { let mut c = GenCfg::base(crate::props::CONSUMING); c.layouts = vec![Layout::Boxed, Layout::Str, Layout::Tracked]; c.max_len = if t { 16 } else { 8 }; c.min_threads = 2; c.max_threads = 4; c.max_ops = 4; c.w_skip = 2; c.terminal_mode = 2; c.extra_cap = true; c.sched_len = if t { 300 } else { 120 }; c }, eval: eval_c15, quick: 10_000, thorough_factor: 25 },
            ],
        ),
        "C16" => (
            "E1 part: 2-4 virtual threads (one case in four: the same operations on every thread) pull chunks whose sizes come from {usize::MAX, MAX-1, MAX/2, MAX/2+1, MAX/3+1, MAX/4, MAX/4+1, 2^62-1, 2^63, MAX-len} mixed with ordinary sizes, on all source kinds, under generated schedules; oracle: the one-cursor model in u128 arithmetic (no position delivered twice, none outside the source, gap-free prefix, linearizable); non-trivial = >=2 threads made a pull with a size above MAX/5 and >=1 context switch inside an operation".into(),
            vec![
                Plan { name: "sched-racing-boundary-sizes", cfg: { let mut c = cfg_e1(t); c.huge_chunks = true; c.huge_often = true; c.w_chunk = 10; c.w_bufnext = 6; c.w_bufnew = 3; c.w_len = 1; c.min_threads = 2; c.max_ops = 3; c }, eval: eval_c16, quick: 30_000, thorough_factor: 25 },
            ],
        ),
        "C10" => (
            "E1 part: all kinds used concurrently under generated schedules (incl. skips), joined, then into_seq_iter; same remainder oracle as the sequential part; non-trivial = >=2 threads, >=1 context switch, >=1 delivery before the conversion".into(),
            vec![
                Plan { name: "sched-into_seq-huge-chunks", cfg: { let mut c = cfg_e1(t); c.w_skip = 1; c.terminal_mode = 1; c.min_threads = 2; c.huge_chunks = true; c.w_chunk = 8; c }, eval: eval_c10, quick: 15_000, thorough_factor: 25 },
                Plan { name: "sched-into_seq", cfg: { let mut c = cfg_e1(t); c.w_skip = 1; c.terminal_mode = 1; c.min_threads = 2; c }, eval: eval_c10, quick: 30_000, thorough_factor: 25 },
            ],
        ),
        "C09" => (
            "E1 histories: wrapped iterators under the fair scheduler (no reachable all-waiting state), known-size kinds with one thread suspended forever at a generated yield point (the others must finish without a single spin-wait episode); non-trivial = wrapped: >=1 waiting episode observed; known-size: the suspension point lies inside an operation and >=2 other threads are active".into(),
            vec![
                Plan { name: "sched-progress-wrapped", cfg: cfg_c09(t, false), eval: eval_c09, quick: 25_000, thorough_factor: 25 },
                Plan { name: "sched-lockfree-known-size", cfg: cfg_c09(t, true), eval: eval_c09, quick: 25_000, thorough_factor: 25 },
                Plan { name: "sched-progress-after-panic", cfg: { let mut c = cfg_c09(t, false); c.fault_sites = vec![FaultSite::ProbeNext, FaultSite::ProbeNext, FaultSite::Closure]; c }, eval: eval_c09, quick: 15_000, thorough_factor: 25 },
                // a thread stops pulling because the destructor of an element it had left in its chunk buffer panics
                // while the buffer is refilled (owning wrapped iterators hold such elements during their turn)
                Plan { name: "sched-progress-after-drop-panic", cfg: { let mut c = cfg_c09(t, false); c.kinds = vec![Kind::IterOwn]; c.layouts = vec![Layout::Tracked]; c.fault_sites = vec![FaultSite::Drop]; c.w_bufnext = 8; c.w_bufnew = 3; c.w_chunk = 3; c.w_drain_composite = 0; c.max_len = if t { 24 } else { 12 }; c }, eval: eval_c09, quick: 15_000, thorough_factor: 25 },
                Plan { name: "sched-dfs-progress", cfg: { let mut c = cfg_small(WRAPPED); c.w_skip = 1; c }, eval: eval_c09_dfs, quick: dfsq, thorough_factor: 4 },
            ],
        ),
        "C11" => (
            "E2: try_get_len / has_more after every prefix of sequential histories, compared with the cursor model (exact for known size; None/Maybe only for wrapped iterators; zero/No required after skip or an end seen by a single or one-shot pull); E1: queries racing with pulls: reported lengths never increase along real time and no pull called after a zero/No delivers; non-trivial (E2) = a query with 0 < remaining < len; (E1) = >=2 queries, one overlapping a pull of another thread".into(),
            vec![
                Plan { name: "seq-len", cfg: cfg_c11(t, true), eval: eval_c11_seq, quick: 300_000, thorough_factor: 25 },
                Plan { name: "sched-len-racing", cfg: cfg_c11(t, false), eval: eval_c11, quick: 40_000, thorough_factor: 25 },
                // nested iterators: inner.values().into_con_iter() while elements are also pulled from `inner` directly
                Plan { name: "nested-len", cfg: crate::nested::cfg(t), eval: crate::nested::eval_c11_nested, quick: 60_000, thorough_factor: 25 },
                // the end reached because the wrapped iterator panicked: lengths must still be what later pulls deliver
                Plan { name: "seq-len-after-panic", cfg: { let mut c = cfg_c11(t, true); c.kinds = WRAPPED.to_vec(); c.fault_sites = vec![FaultSite::ProbeNext]; c.w_skip = 0; c.end_with_drain = true; c.huge_chunks = false; c }, eval: eval_c11_seq, quick: 40_000, thorough_factor: 25 },
            ],
        ),
        "C12" => (
            "E1 histories: 1-4 threads, each ending in for_each / enumerate_for_each / fold with its own chunk size (1 and >1 mixed), optionally preceded by direct pulls; closures yield to the scheduler; oracle: closure arguments + direct pulls cover every element exactly once with correct indices, fold result = fold of the values passed to the closure, combined folds = sequential fold, every pull after a call returned reports the end; non-trivial = >=2 threads using different chunk sizes one of which is 1".into(),
            vec![
                Plan { name: "sched-foreach-fold", cfg: cfg_c12(t), eval: eval_c12, quick: 40_000, thorough_factor: 25 },
                Plan { name: "sched-foreach-fold-unwinding-puller", cfg: { let mut c = cfg_c12(t); c.min_threads = 2; c.unwind_pull = true; c }, eval: eval_c12, quick: 15_000, thorough_factor: 25 },
                Plan { name: "seq-foreach-fold", cfg: seq_of(cfg_c12(t), t), eval: eval_c12_seq, quick: 40_000, thorough_factor: 25 },
            ],
        ),
        "C18" => (
            "E1 histories with one injected panic: the k-th call of the wrapped probe's next, the k-th element clone or the k-th closure invocation (k enumerated 0..len+1 by the generator), under generated schedules; oracle: the other threads complete (no all-waiting state), no duplicate delivery, identity ledger exactly-once for consumed collections; non-trivial = the fault fired while >=1 other thread was inside an operation or waiting".into(),
            vec![
                Plan { name: "sched-fault", cfg: cfg_c18(t), eval: eval_c18, quick: 40_000, thorough_factor: 25 },
                // the pull that panics is made by a destructor while its thread already unwinds from a user panic
                Plan { name: "sched-fault-in-unwinding-puller", cfg: { let mut c = cfg_c18(t); c.unwind_pull = true; c.fault_sites = vec![FaultSite::ProbeNext, FaultSite::ProbeNext, FaultSite::Clone]; c }, eval: eval_c18, quick: 15_000, thorough_factor: 25 },
                Plan { name: "seq-fault", cfg: seq_of(cfg_c18(t), t), eval: eval_c18_seq, quick: 20_000, thorough_factor: 25 },
            ],
        ),
        _ => return None,
    };
    // regressions first
    for p in &plans {
        let engine = p.name.split('-').next().unwrap_or("sched");
        if !p.name.contains("dfs") {
            crate::replay::replay_saved(ctx, engine, &p.eval);
        }
    }
    run_plans(ctx, plans, &rule);
    let level = if ctx.prop == "C18" { "fault_enumeration" } else { "exploration" };
    Some(Meta {
        level,
        rule,
        assumptions: assumptions_sched(),
    })
}

pub fn eval_for(prop: &str, engine: &str) -> Option<fn(&Case) -> Outcome> {
    if engine == "nested" {
        return Some(crate::nested::eval_c11_nested);
    }
    let seq = engine == "seq";
    Some(match (prop, seq) {
        ("C01", false) => eval_c01,
        ("C01", true) => eval_c01_seq,
        ("C02", false) => eval_c02,
        ("C02", true) => eval_c02_seq,
        ("C03", false) => eval_c03,
        ("C03", true) => eval_c03_seq,
        ("C04", false) => eval_c04,
        ("C04", true) => eval_c04_seq,
        ("C05", false) => eval_c05,
        ("C05", true) => eval_c05_seq,
        ("C06", false) => eval_c06,
        ("C06", true) => eval_c06_seq,
        ("C07", _) => eval_c07,
        ("C08", false) => eval_c08,
        ("C10", false) => eval_c10,
        ("C13", false) => eval_c13,
        ("C15", false) => eval_c15,
        ("C16", false) => eval_c16,
        ("C09", _) => eval_c09,
        ("C11", false) => eval_c11,
        ("C11", true) => eval_c11_seq,
        ("C12", false) => eval_c12,
        ("C12", true) => eval_c12_seq,
        ("C18", false) => eval_c18,
        ("C18", true) => eval_c18_seq,
        _ => return None,
    })
}
