//! Concurrent-then-joined execution on real OS threads (the OS picks the schedule). Used where the
//! oracle needs no timing: identity ledger, allocation balance, remainder after concurrent use.

use crate::alloc;
use crate::case::Case;
use crate::elem::{thread_ledger, Elem};
use crate::history::{History, OpRec, SchedStats, SrcInfo};
use crate::hooks;
use crate::interp::{run_thread, terminal, UNTIMED};
use crate::seq::{finish, Partial};
use crate::sources::{snapshot, with_source, Body};
use orx_concurrent_iter::iter::atomic_iter::AtomicIter;
use orx_concurrent_iter::ConcurrentIter;

struct RealBody<'c> {
    case: &'c Case,
}

impl<'c> Body for RealBody<'c> {
    type Out = Partial;
    fn run<I>(self, it: I, info: &SrcInfo) -> Partial
    where
        I: ConcurrentIter + AtomicIter<<I as ConcurrentIter>::Item>,
        I::Item: Elem,
    {
        let case = self.case;
        hooks::reset_env(None);
        let len = info.len;
        let itr = &it;
        // thread creation and joining are harness business: not part of the allocation balance
        // allocated (and later released) inside the gate; only filled while the gate is paused
        let mut results: Vec<((Vec<OpRec>, Vec<I::Item>, bool), i64, i64)> = Vec::with_capacity(case.threads.len());
        alloc::paused(|| {
            let r: Vec<_> = std::thread::scope(|s| {
                let handles: Vec<_> = case
                    .threads
                    .iter()
                    .enumerate()
                    .map(|(tid, ops)| {
                        s.spawn(move || {
                            alloc::gated(|| {
                                hooks::reset_env(None);
                                let mut stash: Vec<I::Item> = Vec::new();
                                let ok = run_thread(itr, tid, ops, len, &mut stash);
                                (hooks::take_records(), stash, ok)
                            })
                        })
                    })
                    .collect();
                handles
                    .into_iter()
                    .map(|h| h.join().expect("worker thread of a case panicked outside catch_unwind"))
                    .collect()
            });
            for x in r {
                results.push(x);
            }
        });
        let mut ops: Vec<OpRec> = vec![];
        let mut stashes: Vec<Vec<I::Item>> = vec![];
        let mut completed = vec![];
        for ((recs, stash, ok), bytes, blocks) in results {
            alloc::absorb(bytes, blocks);
            ops.extend(recs.into_iter().map(|mut r| {
                r.call = UNTIMED;
                r.ret = UNTIMED;
                r
            }));
            stashes.push(stash);
            completed.push(ok);
        }
        let mut owner_stash: Vec<I::Item> = Vec::new();
        let term = terminal(it, case.terminal, len, &mut owner_stash);
        stashes.push(owner_stash);
        let led = thread_ledger();
        let ledger_mid = snapshot(led, len);
        let held_ids: Vec<u32> = stashes
            .iter()
            .flat_map(|s| s.iter().map(|x| x.rec().id))
            .collect();
        drop(stashes);
        Partial {
            info: info.clone(),
            ops,
            term,
            ledger_mid,
            held_ids,
            completed,
            sched: SchedStats::default(),
        }
    }
}

pub fn run_real(case: &Case) -> History {
    let (p, intact) = with_source(case, RealBody { case });
    finish(case, p, intact)
}
