//! Replay of saved cases (regressions and found violations). Bypasses proptest entirely.

use crate::case::Case;
use crate::driver::{Ctx, Outcome};
use crate::known::verif_root;
use serde_json::Value;

pub fn load(path: &std::path::Path) -> Result<(Case, Value), String> {
    let text = std::fs::read_to_string(path).map_err(|e| format!("{}: {}", path.display(), e))?;
    let v: Value = serde_json::from_str(&text).map_err(|e| format!("{}: {}", path.display(), e))?;
    let case = Case::from_json(&v).map_err(|e| format!("{}: {}", path.display(), e))?;
    Ok((case, v))
}

/// Replays every saved case of the property whose engine matches (files without an engine match all).
pub fn replay_saved(ctx: &mut Ctx, engine: &str, eval: &dyn Fn(&Case) -> Outcome) {
    let dir = verif_root().join("replays").join(&ctx.prop);
    let Ok(rd) = std::fs::read_dir(&dir) else {
        return;
    };
    let mut files: Vec<_> = rd.filter_map(|e| e.ok()).map(|e| e.path()).collect();
    files.sort();
    for f in files {
        if f.extension().and_then(|x| x.to_str()) != Some("json") {
            continue;
        }
        match load(&f) {
            Ok((case, v)) => {
                let e = v.get("engine").and_then(|x| x.as_str()).unwrap_or(engine);
                if e != engine {
                    continue;
                }
                let out = {
                    let _running = crate::driver::watchdog::enter(127, &case);
                    eval(&case)
                };
                ctx.record_direct(&format!("{}-replay", engine), &case, out);
            }
            Err(e) => eprintln!("skipping replay file: {}", e),
        }
    }
}
