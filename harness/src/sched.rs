//! Engine E1: deterministic-schedule execution of concurrent histories.
//!
//! Virtual threads are stackful coroutines on one OS thread. Every atomic access of the crate
//! (reported by the `verif_hooks` shim), every execution of the wrapped probe iterator, every
//! element clone and every user-closure invocation is a yield point at which the schedule (data of
//! the case) decides who runs next. Waiting is decided logically (spin rule), happens-before is
//! computed from the orderings the crate passes to the shim (vector clocks).

use crate::case::Case;
use crate::elem::{thread_ledger, Elem};
use crate::history::{SchedStats, SrcInfo};
use crate::hooks::{self, Hooks};
use crate::interp::{run_thread, terminal};
use crate::seq::Partial;
use crate::sources::{snapshot, with_source, Body};
use corosensei::{Coroutine, CoroutineResult, Yielder};
use orx_concurrent_iter::iter::atomic_iter::AtomicIter;
use orx_concurrent_iter::verif_hooks::{with_monitor, Access, Kind as AKind, Monitor};
use orx_concurrent_iter::ConcurrentIter;
use std::cell::{Cell, RefCell};
use std::collections::HashMap;
use std::sync::atomic::Ordering;

pub const STEP_BOUND: u64 = 60_000;
const SPIN_MIN: usize = 6;
const CONFIRM_EVENTS: usize = 64;

type VC = Vec<u32>;

fn join(a: &mut VC, b: &VC) {
    for i in 0..a.len() {
        if b[i] > a[i] {
            a[i] = b[i];
        }
    }
}

#[derive(Default, Clone)]
struct ThreadSt {
    done: bool,
    spinning: bool,
    frozen: bool,
    released: bool,
    /// (addr, value) of the recent accesses that left memory unchanged, within the current operation
    recent: Vec<(usize, usize)>,
    epoch_seen: u64,
    yields: usize,
    in_op: bool,
    first_ev: Option<u64>,
    last_ev: u64,
    spun_in_this_op: bool,
    /// unsuccessful polls this thread may still make before it is treated as waiting (`Case::spin`)
    spin_budget: usize,
}

/// Source of scheduling decisions.
pub trait Chooser {
    /// `cur_ok`: the current thread may continue. `others`: the other runnable threads in cyclic order after `cur`.
    /// Returns None to continue the current thread, Some(i) to switch to others[i].
    fn choose(&mut self, cur_ok: bool, others: &[usize]) -> Option<usize>;
}

pub struct BytesChooser<'a> {
    pub bytes: &'a [u8],
    pub pos: usize,
}

impl<'a> Chooser for BytesChooser<'a> {
    fn choose(&mut self, cur_ok: bool, others: &[usize]) -> Option<usize> {
        if others.is_empty() {
            return None;
        }
        let b = if self.pos < self.bytes.len() {
            let b = self.bytes[self.pos];
            self.pos += 1;
            b
        } else {
            0
        };
        if cur_ok {
            if b == 0 {
                None
            } else {
                Some(((b as usize - 1) * others.len()) >> 8)
            }
        } else {
            Some((b as usize * others.len()) >> 8)
        }
    }
}

/// Never preempts: threads run one after another (thread 0 first); a waiting thread yields to the lowest
/// runnable one. Sequential histories with logical hang detection.
pub struct NoSwitchChooser;

impl Chooser for NoSwitchChooser {
    fn choose(&mut self, cur_ok: bool, others: &[usize]) -> Option<usize> {
        if cur_ok || others.is_empty() {
            None
        } else {
            let (i, _) = others.iter().enumerate().min_by_key(|(_, t)| **t).expect("non-empty");
            Some(i)
        }
    }
}

/// Depth-first enumeration of all schedules with at most `max_preempt` preemptions.
pub struct DfsChooser {
    /// (chosen option, number of options) per choice point
    pub trace: Vec<(usize, usize)>,
    pub pos: usize,
    pub preempts: usize,
    pub max_preempt: usize,
    /// the decisions of the current run as schedule bytes (replayable by `BytesChooser`)
    pub log: Vec<u8>,
}

fn byte_for(cur_ok: bool, choice: Option<usize>, n_others: usize) -> u8 {
    let n = n_others.max(1);
    match (cur_ok, choice) {
        (true, None) => 0,
        (true, Some(i)) => (1 + (i * 256 + n - 1) / n).min(255) as u8,
        (false, None) => 0,
        (false, Some(i)) => ((i * 256 + n - 1) / n).min(255) as u8,
    }
}

impl DfsChooser {
    pub fn new(max_preempt: usize) -> Self {
        DfsChooser {
            trace: vec![],
            pos: 0,
            preempts: 0,
            max_preempt,
            log: vec![],
        }
    }
    /// prepares the next schedule; false when the space is exhausted
    pub fn advance(&mut self) -> bool {
        self.trace.truncate(self.pos);
        while let Some((c, n)) = self.trace.pop() {
            if c + 1 < n {
                self.trace.push((c + 1, n));
                self.pos = 0;
                self.preempts = 0;
                return true;
            }
        }
        false
    }
}

impl Chooser for DfsChooser {
    fn choose(&mut self, cur_ok: bool, others: &[usize]) -> Option<usize> {
        let r = self.choose_inner(cur_ok, others);
        self.log.push(byte_for(cur_ok, r, others.len()));
        r
    }
}

impl DfsChooser {
    fn choose_inner(&mut self, cur_ok: bool, others: &[usize]) -> Option<usize> {
        // options: [continue] (if allowed) followed by the others (if a preemption is still allowed or forced)
        let can_switch = !others.is_empty() && (!cur_ok || self.preempts < self.max_preempt);
        let n = (cur_ok as usize) + if can_switch { others.len() } else { 0 };
        if n <= 1 {
            return if cur_ok { None } else if others.is_empty() { None } else { Some(0) };
        }
        let c = if self.pos < self.trace.len() {
            self.trace[self.pos].0
        } else {
            self.trace.push((0, n));
            0
        };
        self.pos += 1;
        if cur_ok {
            if c == 0 {
                None
            } else {
                self.preempts += 1;
                Some(c - 1)
            }
        } else {
            Some(c)
        }
    }
}

pub struct Sched {
    n: usize,
    cur: Cell<usize>,
    yielders: Vec<Cell<*const Yielder<(), ()>>>,
    st: RefCell<Vec<ThreadSt>>,
    clocks: RefCell<Vec<VC>>,
    rel: RefCell<HashMap<usize, VC>>,
    step: Cell<u64>,
    epoch: Cell<u64>,
    no_preempt: Cell<bool>,
    teardown: Cell<bool>,
    inside: Cell<Option<usize>>,
    last_probe: Cell<Option<(usize, u32)>>,
    /// epochs of the reads of the probe's state since its last write, per thread
    probe_reads: RefCell<Vec<u32>>,
    stats: RefCell<SchedStats>,
    freeze: Option<(usize, usize)>,
    track_hb: bool,
    record_trace: bool,
    locs: RefCell<Vec<usize>>,
    coarse: bool,
    /// kind of the yield point the current thread is suspended at: 0 atomic access, 1 closure / clone, 2 probe
    yield_kind: Cell<u8>,
    /// the suspended atomic access is the first shared action of its operation
    yield_first: Cell<bool>,
    /// steps after which a run is abandoned as inconclusive (grows with the source length)
    step_bound: u64,
}

impl Sched {
    fn new(n: usize, freeze: Option<(usize, usize)>, unmodelled: bool, spin: usize, len: usize) -> Sched {
        let clocks = (0..=n)
            .map(|i| {
                let mut v = vec![0u32; n + 1];
                v[i] = 1;
                // fork edge from the owner (index n)
                v[n] = 1;
                v
            })
            .collect();
        let mut stats = SchedStats::default();
        stats.unmodelled_sync = unmodelled;
        Sched {
            n,
            cur: Cell::new(n),
            yielders: (0..n).map(|_| Cell::new(std::ptr::null())).collect(),
            st: RefCell::new(vec![ThreadSt { spin_budget: spin, ..ThreadSt::default() }; n]),
            step_bound: STEP_BOUND + 80 * len as u64 + 4 * spin as u64 * n as u64,
            clocks: RefCell::new(clocks),
            rel: RefCell::new(HashMap::new()),
            step: Cell::new(0),
            epoch: Cell::new(0),
            no_preempt: Cell::new(false),
            teardown: Cell::new(false),
            inside: Cell::new(None),
            last_probe: Cell::new(None),
            probe_reads: RefCell::new(vec![0; n + 1]),
            stats: RefCell::new(stats),
            freeze,
            track_hb: true,
            record_trace: hooks::record_trace(),
            locs: RefCell::new(Vec::new()),
            coarse: hooks::coarse(),
            yield_kind: Cell::new(1),
            yield_first: Cell::new(true),
        }
    }

    fn event(&self) -> u64 {
        let s = self.step.get() + 1;
        self.step.set(s);
        let t = self.cur.get();
        if t < self.n {
            let mut st = self.st.borrow_mut();
            let th = &mut st[t];
            if th.first_ev.is_none() {
                th.first_ev = Some(s);
            }
            th.last_ev = s;
        }
        s
    }

    fn yield_now(&self) {
        let t = self.cur.get();
        if t >= self.n || self.teardown.get() || self.no_preempt.get() {
            return;
        }
        {
            let mut st = self.st.borrow_mut();
            let th = &mut st[t];
            th.yields += 1;
            if let Some((ft, fk)) = self.freeze {
                if ft == t && !th.released && !th.frozen && th.yields == fk + 1 {
                    th.frozen = true;
                    self.stats.borrow_mut().froze = true;
                    if th.in_op {
                        self.stats.borrow_mut().frozen_inside_op = true;
                    }
                }
            }
        }
        let y = self.yielders[t].get();
        if !y.is_null() {
            unsafe { (*y).suspend(()) }
        }
    }

    fn memory_changed(&self) {
        self.epoch.set(self.epoch.get() + 1);
        let mut st = self.st.borrow_mut();
        for s in st.iter_mut() {
            s.spinning = false;
            s.recent.clear();
        }
    }
}

impl Monitor for Sched {
    fn before(&self, _a: &Access) {
        let t = self.cur.get();
        if t < self.n {
            self.yield_kind.set(0);
            let st = self.st.borrow();
            self.yield_first.set(st[t].first_ev.is_none());
        }
        self.yield_now();
    }

    fn after(&self, a: &Access, old: usize, new: usize, wrote: bool) {
        if self.teardown.get() {
            return;
        }
        self.event();
        self.stats.borrow_mut().events += 1;
        let t = self.cur.get();
        if self.record_trace {
            let mut locs = self.locs.borrow_mut();
            let li = match locs.iter().position(|x| *x == a.addr) {
                Some(i) => i,
                None => {
                    locs.push(a.addr);
                    locs.len() - 1
                }
            };
            let k = match a.kind {
                AKind::Load => 0u8,
                AKind::Store => 1,
                AKind::Rmw => 2,
            };
            self.stats.borrow_mut().trace.push((t as u8, li as u16, k, wrote, old as u64, new as u64));
        }
        let order = if wrote || a.kind != AKind::Rmw {
            a.order
        } else {
            a.fail_order
        };
        let acq = matches!(order, Ordering::Acquire | Ordering::AcqRel | Ordering::SeqCst);
        let rls = wrote && matches!(order, Ordering::Release | Ordering::AcqRel | Ordering::SeqCst);
        if self.track_hb {
            let mut clocks = self.clocks.borrow_mut();
            let mut rel = self.rel.borrow_mut();
            if a.kind != AKind::Store && acq {
                if let Some(l) = rel.get(&a.addr) {
                    let l = l.clone();
                    join(&mut clocks[t], &l);
                }
            }
            if wrote {
                match a.kind {
                    AKind::Store => {
                        if rls {
                            rel.insert(a.addr, clocks[t].clone());
                        } else {
                            // a relaxed store ends every release sequence on this location
                            rel.remove(&a.addr);
                        }
                    }
                    AKind::Rmw => {
                        // an RMW continues the release sequence; a releasing RMW also adds its own clock
                        if rls {
                            let c = clocks[t].clone();
                            let e = rel.entry(a.addr).or_insert_with(|| vec![0; c.len()]);
                            join(e, &c);
                        }
                    }
                    AKind::Load => {}
                }
                clocks[t][t] += 1;
            }
        }
        if wrote && old != new {
            self.memory_changed();
        } else if t < self.n {
            // access that left memory unchanged: candidate for a spin-wait
            let mut st = self.st.borrow_mut();
            let s = &mut st[t];
            if s.epoch_seen != self.epoch.get() {
                s.recent.clear();
                s.epoch_seen = self.epoch.get();
            }
            s.recent.push((a.addr, old));
            let r = &s.recent;
            let n = r.len();
            if n >= SPIN_MIN {
                let periodic = (1..=3usize).any(|p| (n - SPIN_MIN..n - p).all(|i| r[i] == r[i + p]));
                if periodic && !s.spinning && s.spin_budget > 0 {
                    s.spin_budget -= 1;
                } else if periodic && !s.spinning {
                    s.spinning = true;
                    if !s.spun_in_this_op {
                        s.spun_in_this_op = true;
                        let mut stt = self.stats.borrow_mut();
                        stt.spin_episodes += 1;
                        if !s.released {
                            stt.spin_episodes_nonfrozen += 1;
                        }
                    }
                }
            }
            if s.recent.len() > 64 {
                let k = s.recent.len() - 32;
                s.recent.drain(0..k);
            }
        }
    }
}

impl Hooks for Sched {
    fn yield_pt(&self) {
        if self.teardown.get() {
            return;
        }
        self.yield_kind.set(1);
        self.yield_now();
        self.event();
    }

    fn probe_access(&self) {
        if self.teardown.get() {
            return;
        }
        let t = self.cur.get();
        if let Some(other) = self.inside.get() {
            if other != t {
                self.stats.borrow_mut().overlap = true;
            }
        }
        self.inside.set(Some(t));
        self.event();
        // let the others run while this thread is inside the wrapped iterator
        self.yield_kind.set(2);
        self.yield_now();
        if self.teardown.get() {
            return;
        }
        {
            let mut clocks = self.clocks.borrow_mut();
            if let Some((pt, epoch)) = self.last_probe.get() {
                if pt != t {
                    self.stats.borrow_mut().probe_handoffs += 1;
                    if clocks[t][pt] < epoch && self.stats.borrow().race.is_none() {
                        self.stats.borrow_mut().race = Some(format!(
                            "the wrapped iterator's next() ran on thread {} and then on thread {} without a happens-before edge between the two executions (vector clock of thread {} has {} for thread {}, needs {})",
                            pt, t, t, clocks[t][pt], pt, epoch
                        ));
                    }
                }
            }
            // a write must also be ordered after every read of the state since the previous write
            {
                let mut reads = self.probe_reads.borrow_mut();
                for (rt, re) in reads.iter_mut().enumerate() {
                    if rt != t && *re != 0 && clocks[t][rt] < *re && self.stats.borrow().race.is_none() {
                        self.stats.borrow_mut().race = Some(format!(
                            "the wrapped iterator's state was read (size_hint) on thread {} and its next() then ran on thread {} without a happens-before edge between the two",
                            rt, t
                        ));
                    }
                    *re = 0;
                }
            }
            self.last_probe.set(Some((t, clocks[t][t])));
            clocks[t][t] += 1;
        }
        self.event();
        self.inside.set(None);
    }

    fn probe_read(&self) {
        if self.teardown.get() {
            return;
        }
        let t = self.cur.get();
        if let Some(other) = self.inside.get() {
            if other != t {
                self.stats.borrow_mut().overlap = true;
            }
        }
        let mut clocks = self.clocks.borrow_mut();
        if let Some((pt, epoch)) = self.last_probe.get() {
            if pt != t && clocks[t][pt] < epoch && self.stats.borrow().race.is_none() {
                self.stats.borrow_mut().race = Some(format!(
                    "the wrapped iterator's next() ran on thread {} and its state was then read (size_hint) on thread {} without a happens-before edge between the two",
                    pt, t
                ));
            }
        }
        self.probe_reads.borrow_mut()[t] = clocks[t][t];
        clocks[t][t] += 1;
    }

    fn op_begin(&self, tid: usize) {
        if tid < self.n {
            let mut st = self.st.borrow_mut();
            let th = &mut st[tid];
            th.in_op = true;
            th.first_ev = None;
            th.recent.clear();
            th.spun_in_this_op = false;
        }
    }

    fn op_end(&self, tid: usize) -> (u64, u64) {
        if tid < self.n {
            let mut st = self.st.borrow_mut();
            let th = &mut st[tid];
            th.in_op = false;
            th.recent.clear();
            match th.first_ev.take() {
                Some(f) => (f, th.last_ev),
                None => {
                    // an operation without any shared action: place it at the current instant
                    drop(st);
                    let s = self.event();
                    (s, s)
                }
            }
        } else {
            let s = self.event();
            (s, s)
        }
    }

    fn panic_begin(&self) {
        self.no_preempt.set(true);
        let t = self.cur.get();
        let st = self.st.borrow();
        let waiters = st
            .iter()
            .enumerate()
            .filter(|(i, s)| *i != t && !s.done && (s.spinning || (s.in_op && s.first_ev.is_some())))
            .count() as u64;
        self.stats.borrow_mut().waiters_at_fault += waiters;
    }

    fn panic_end(&self) {
        self.no_preempt.set(false);
    }
}

struct SchedBody<'c, 'k> {
    case: &'c Case,
    chooser: &'k mut dyn Chooser,
    unmodelled: bool,
}

impl<'c, 'k> Body for SchedBody<'c, 'k> {
    type Out = Partial;
    fn run<I>(self, it: I, info: &SrcInfo) -> Partial
    where
        I: ConcurrentIter + AtomicIter<<I as ConcurrentIter>::Item>,
        I::Item: Elem,
    {
        let case = self.case;
        let chooser = self.chooser;
        let n = case.threads.len();
        hooks::reset_env(case.fault);
        crate::interp::set_keep_going(case.keep_going);
        let sched = Sched::new(n, case.freeze, self.unmodelled, case.spin, case.len);
        let mut stashes: Vec<Vec<I::Item>> = (0..n).map(|_| Vec::new()).collect();
        let completed: Vec<Cell<bool>> = (0..n).map(|_| Cell::new(false)).collect();
        {
            let sp: &Sched = &sched;
            // bodies are type-erased so that the coroutine closure does not mention `I`
            let mut bodies: Vec<Box<dyn FnOnce() + '_>> = vec![];
            let itr = &it;
            for ((t, stash), done) in stashes.iter_mut().enumerate().zip(completed.iter()) {
                let ops = &case.threads[t];
                let len = info.len;
                bodies.push(Box::new(move || {
                    // a panic can leave run_thread itself only from the destructor of the thread's buffered
                    // handle (an element left in its buffer whose injected Drop fault fires): the thread ends
                    let ok = match std::panic::catch_unwind(std::panic::AssertUnwindSafe(|| run_thread(itr, t, ops, len, stash))) {
                        Ok(ok) => ok,
                        Err(p) => {
                            if hooks::tearing_down() {
                                std::panic::resume_unwind(p);
                            }
                            hooks::panic_end();
                            crate::interp::record_thread_panic(t, ops.len(), &p);
                            false
                        }
                    };
                    done.set(ok);
                }));
            }
            let clone_hook = || {
                if hooks::clone_yields() {
                    hooks::yield_pt();
                }
                hooks::fault_point(crate::case::FaultSite::Clone);
            };
            let drop_hook = || {
                // never while unwinding (a second panic would abort) and never during the engine's teardown
                if !std::thread::panicking() && !hooks::tearing_down() {
                    hooks::fault_point(crate::case::FaultSite::Drop);
                }
            };
            with_monitor(sp, || {
                hooks::with_hooks(sp, || {
                    crate::elem::with_clone_hook(&clone_hook, || {
                        crate::elem::with_drop_hook(&drop_hook, || {
                            drive(sp, bodies, chooser);
                        })
                    })
                })
            });
        }
        // join edges: the owner happens-after everything the threads did
        {
            let mut clocks = sched.clocks.borrow_mut();
            let all: Vec<VC> = clocks.iter().take(n).cloned().collect();
            for c in &all {
                join(&mut clocks[n], c);
            }
        }
        sched.cur.set(n);
        let hang = sched.stats.borrow().hang || sched.stats.borrow().step_bound_hit;
        let mut owner_stash: Vec<I::Item> = Vec::new();
        // the terminal runs on the owner with the hooks still observing the probe (no preemption possible)
        let term = hooks::with_hooks(&sched, || terminal(it, case.terminal, info.len, &mut owner_stash));
        let _ = hang;
        stashes.push(owner_stash);
        let led = thread_ledger();
        let ledger_mid = snapshot(led, info.len);
        let held_ids: Vec<u32> = stashes
            .iter()
            .flat_map(|s| s.iter().map(|x| x.rec().id))
            .collect();
        drop(stashes);
        let stats = sched.stats.borrow().clone();
        Partial {
            info: info.clone(),
            ops: hooks::take_records(),
            term,
            ledger_mid,
            held_ids,
            completed: completed.iter().map(|c| c.get()).collect(),
            sched: stats,
        }
    }
}

thread_local! {
    /// stacks of finished coroutines, reused by later cases of this worker (creating a stack is an mmap)
    static STACKS: RefCell<Vec<corosensei::stack::DefaultStack>> = const { RefCell::new(Vec::new()) };
}

const STACK_SIZE: usize = 256 * 1024;

fn take_stack() -> corosensei::stack::DefaultStack {
    STACKS
        .with(|s| s.borrow_mut().pop())
        .unwrap_or_else(|| corosensei::stack::DefaultStack::new(STACK_SIZE).expect("coroutine stack"))
}

fn give_stack(st: corosensei::stack::DefaultStack) {
    STACKS.with(|s| {
        let mut s = s.borrow_mut();
        if s.len() < 16 {
            s.push(st);
        }
    })
}

fn spawn<'a>(sp: &'a Sched, t: usize, body: Box<dyn FnOnce() + 'a>) -> Coroutine<(), (), ()> {
    // SAFETY: every coroutine is completed or dropped (force-unwound) inside `drive`, before `sp` and
    // everything the body borrows go out of scope.
    let body: Box<dyn FnOnce() + 'static> = unsafe { std::mem::transmute(body) };
    let sp: &'static Sched = unsafe { &*(sp as *const Sched) };
    Coroutine::with_stack(take_stack(), move |y: &Yielder<(), ()>, _| {
        sp.yielders[t].set(y as *const _);
        body();
    })
}

fn drive<'a>(sp: &'a Sched, bodies: Vec<Box<dyn FnOnce() + 'a>>, chooser: &mut dyn Chooser) {
    let n = sp.n;
    let mut cos: Vec<Coroutine<(), (), ()>> = bodies
        .into_iter()
        .enumerate()
        .map(|(t, b)| spawn(sp, t, b))
        .collect();
    let mut cur: Option<usize> = None;
    let resume = |cos: &mut Vec<Coroutine<(), (), ()>>, t: usize| {
        sp.cur.set(t);
        match cos[t].resume(()) {
            CoroutineResult::Yield(()) => {}
            CoroutineResult::Return(()) => {
                sp.st.borrow_mut()[t].done = true;
            }
        }
        sp.cur.set(n);
    };
    loop {
        if n == 0 {
            break;
        }
        let (cur_ok, others, unfinished, frozen_waiting) = {
            let st = sp.st.borrow();
            let ok = |i: usize| !st[i].done && !st[i].spinning && !st[i].frozen;
            let cur_ok = cur.map_or(false, ok);
            let others: Vec<usize> = match cur {
                Some(c) => (1..n).map(|d| (c + d) % n).filter(|&i| ok(i)).collect(),
                None => (0..n).filter(|&i| ok(i)).collect(),
            };
            let unfinished = st.iter().filter(|s| !s.done).count();
            let frozen_waiting = st.iter().position(|s| s.frozen);
            (cur_ok, others, unfinished, frozen_waiting)
        };
        if unfinished == 0 {
            break;
        }
        if !cur_ok && others.is_empty() {
            // nobody can run: release a frozen thread first, otherwise this is a candidate hang
            if let Some(f) = frozen_waiting {
                let mut st = sp.st.borrow_mut();
                let others_done = st.iter().enumerate().all(|(i, s)| i == f || s.done);
                st[f].frozen = false;
                st[f].released = true;
                drop(st);
                if others_done {
                    sp.stats.borrow_mut().others_finished_while_frozen = true;
                }
                continue;
            }
            // confirm: run every spinner for a while; if nothing changes memory, nobody ever will
            let spinners: Vec<usize> = {
                let st = sp.st.borrow();
                (0..n).filter(|&i| !st[i].done).collect()
            };
            let epoch0 = sp.epoch.get();
            let mut progressed = false;
            'confirm: for &s in &spinners {
                for _ in 0..CONFIRM_EVENTS {
                    resume(&mut cos, s);
                    if sp.epoch.get() != epoch0 || sp.st.borrow()[s].done {
                        progressed = true;
                        break 'confirm;
                    }
                }
            }
            if progressed {
                continue;
            }
            sp.stats.borrow_mut().hang = true;
            break;
        }
        // coarse schedules: a running thread can only be preempted at a semantic point
        let semantic = sp.yield_kind.get() != 0 || sp.yield_first.get();
        let real_choice = ((cur_ok && !others.is_empty()) || (!cur_ok && others.len() > 1)) && (!sp.coarse || !cur_ok || semantic);
        let choice = if real_choice { chooser.choose(cur_ok, &others) } else { None };
        if real_choice {
            sp.stats.borrow_mut().choice_points += 1;
        }
        let next = match choice {
            None if cur_ok => cur.expect("current thread"),
            None => others[0],
            Some(i) => others[i.min(others.len() - 1)],
        };
        if let Some(c) = cur {
            if next != c {
                let st = sp.st.borrow();
                let (alive, in_op) = (!st[c].done, st[c].in_op && st[c].first_ev.is_some() && !st[c].done);
                drop(st);
                let mut stt = sp.stats.borrow_mut();
                if alive {
                    stt.switches += 1;
                }
                if in_op {
                    stt.switches_in_op += 1;
                }
            }
        }
        cur = Some(next);
        resume(&mut cos, next);
        if sp.step.get() > sp.step_bound {
            sp.stats.borrow_mut().step_bound_hit = true;
            break;
        }
    }
    // teardown: nothing observed from here on is judged
    sp.teardown.set(true);
    orx_concurrent_iter::verif_hooks::without_monitor(|| {
        hooks::set_tearing_down(true);
        for c in cos {
            if c.done() {
                give_stack(c.into_stack());
            } else {
                drop(c);
            }
        }
        hooks::set_tearing_down(false);
    });
    sp.teardown.set(false);
    sp.no_preempt.set(false);
}

/// Executes the case under the schedule given by `chooser`.
pub fn run_sched_with(case: &Case, chooser: &mut dyn Chooser, unmodelled: bool) -> crate::history::History {
    let (p, intact) = with_source(
        case,
        SchedBody {
            case,
            chooser,
            unmodelled,
        },
    );
    crate::seq::finish(case, p, intact)
}

/// Executes the threads of the case one after another on the schedule engine (no preemption).
pub fn run_seq_e1(case: &Case) -> crate::history::History {
    let mut ch = NoSwitchChooser;
    let mut h = run_sched_with(case, &mut ch, unmodelled_sync());
    h.sched.sequential = true;
    h
}

/// Executes the case under its own schedule bytes.
pub fn run_sched(case: &Case) -> crate::history::History {
    let mut ch = BytesChooser {
        bytes: &case.sched,
        pos: 0,
    };
    run_sched_with(case, &mut ch, unmodelled_sync())
}

/// Scan of the crate's sources for synchronisation the shim cannot see (DESIGN §3.1).
pub fn unmodelled_sync() -> bool {
    use std::sync::OnceLock;
    static R: OnceLock<bool> = OnceLock::new();
    *R.get_or_init(|| !scan_unmodelled().is_empty())
}

pub fn scan_unmodelled() -> Vec<String> {
    let mut found = vec![];
    let root = std::path::Path::new("/repo/src");
    let mut stack = vec![root.to_path_buf()];
    let needles = [
        "Mutex", "RwLock", "Condvar", "Once", "fence(", "AtomicPtr", "AtomicU64", "AtomicU32", "AtomicU8", "AtomicU16",
        "AtomicIsize", "AtomicI64", "AtomicI32", "park", "Barrier", "mpsc", "static mut",
    ];
    while let Some(d) = stack.pop() {
        let Ok(rd) = std::fs::read_dir(&d) else { continue };
        for e in rd.flatten() {
            let p = e.path();
            if p.is_dir() {
                if p.file_name().and_then(|x| x.to_str()) == Some("tests") {
                    continue;
                }
                stack.push(p);
                continue;
            }
            if p.extension().and_then(|x| x.to_str()) != Some("rs") {
                continue;
            }
            let name = p.file_name().and_then(|x| x.to_str()).unwrap_or("");
            if name == "verif_hooks.rs" {
                continue;
            }
            let shimmed = p.ends_with("iter/atomic_counter.rs") || p.ends_with("implementors/iter.rs");
            let Ok(text) = std::fs::read_to_string(&p) else { continue };
            for line in text.lines() {
                let code = line.split("//").next().unwrap_or("");
                if code.trim().is_empty() {
                    continue;
                }
                for nd in needles {
                    if let Some(ix) = code.find(nd) {
                        // identifier boundary on the left (avoid e.g. `OnceXyz` false hits for `Once` only on the right)
                        let right = code[ix + nd.len()..].chars().next();
                        let left = code[..ix].chars().last();
                        let ident = |c: Option<char>| c.map_or(false, |c| c.is_alphanumeric() || c == '_');
                        if nd.ends_with('(') || (!ident(left) && !ident(right)) {
                            found.push(format!("{}: {}", p.display(), nd));
                        }
                    }
                }
                if !shimmed {
                    for tok in ["AtomicUsize", "AtomicBool"] {
                        if code.contains(tok) {
                            found.push(format!("{}: raw {}", p.display(), tok));
                        }
                    }
                }
            }
        }
    }
    found
}
