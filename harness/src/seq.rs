//! Engine E2: sequential execution of a case (threads one after another on one OS thread),
//! producing the same `History` the schedule engine produces.

use crate::case::Case;
use crate::elem::{thread_ledger, Elem};
use crate::history::{History, LedgerSnap, OpRec, SchedStats, SrcInfo, TermRes};
use crate::hooks;
use crate::interp::{run_thread, terminal};
use crate::sources::{snapshot, with_source, Body};
use orx_concurrent_iter::iter::atomic_iter::AtomicIter;
use orx_concurrent_iter::ConcurrentIter;

pub struct Partial {
    pub info: SrcInfo,
    pub ops: Vec<OpRec>,
    pub term: TermRes,
    pub ledger_mid: LedgerSnap,
    pub held_ids: Vec<u32>,
    pub completed: Vec<bool>,
    pub sched: SchedStats,
}

struct SeqBody<'c> {
    case: &'c Case,
}

impl<'c> Body for SeqBody<'c> {
    type Out = Partial;
    fn run<I>(self, it: I, info: &SrcInfo) -> Partial
    where
        I: ConcurrentIter + AtomicIter<<I as ConcurrentIter>::Item>,
        I::Item: Elem,
    {
        let case = self.case;
        hooks::reset_env(case.fault);
        crate::interp::set_keep_going(case.keep_going);
        let mut stashes: Vec<Vec<I::Item>> = case.threads.iter().map(|_| Vec::new()).collect();
        let mut completed = vec![];
        for (tid, ops) in case.threads.iter().enumerate() {
            completed.push(run_thread(&it, tid, ops, info.len, &mut stashes[tid]));
        }
        let mut owner_stash: Vec<I::Item> = Vec::new();
        let term = terminal(it, case.terminal, info.len, &mut owner_stash);
        stashes.push(owner_stash);
        let led = thread_ledger();
        let ledger_mid = snapshot(led, info.len);
        let held_ids: Vec<u32> = stashes
            .iter()
            .flat_map(|s| s.iter().map(|x| x.rec().id))
            .collect();
        drop(stashes);
        Partial {
            info: info.clone(),
            ops: hooks::take_records(),
            term,
            ledger_mid,
            held_ids,
            completed,
            sched: SchedStats {
                sequential: true,
                ..SchedStats::default()
            },
        }
    }
}

pub fn finish(case: &Case, p: Partial, intact: bool) -> History {
    let led = thread_ledger();
    let ledger_end = snapshot(led, p.info.len);
    History {
        case: case.clone(),
        info: p.info,
        ops: p.ops,
        term: p.term,
        ledger_mid: p.ledger_mid,
        ledger_end,
        held_ids: p.held_ids,
        source_intact: intact,
        sched: p.sched,
        threads_completed: p.completed,
    }
}

/// Runs the case sequentially: thread 0's operations, then thread 1's, ..., then the terminal.
pub fn run_seq(case: &Case) -> History {
    let (p, intact) = with_source(case, SeqBody { case });
    finish(case, p, intact)
}
