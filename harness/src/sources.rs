//! Construction of every source kind and generic dispatch into a `Body`.

use crate::case::{mix, Case, FaultSite, Hint, Kind, Layout};
use crate::elem::{thread_ledger, Boxed, CopyEl, Elem, Ledger, StrEl, Tracked, Zst, MAX_ELEMS};
use crate::history::{LedgerSnap, SrcInfo, Vals};
use crate::hooks;
use orx_concurrent_iter::iter::atomic_iter::AtomicIter;
use orx_concurrent_iter::{
    ConIterOfArray, ConIterOfIter, ConIterOfRange, ConIterOfSlice, ConIterOfVec, ConcurrentIter, ConcurrentIterable,
    IntoCloned, IntoConcurrentIter, IntoCopied, IterIntoConcurrentIter,
};

/// Wrapped sequential iterator owned by the harness. Reports each execution of `next` to the
/// scheduler hooks (mutual exclusion / happens-before oracle of C07) and can inject a panic (C18).
/// Fused: after the first `None` it keeps returning `None`.
pub struct Probe<T> {
    items: std::vec::IntoIter<T>,
    total: usize,
    hint: Hint,
}

impl<T> Probe<T> {
    pub fn new(items: Vec<T>, hint: Hint) -> Self {
        Probe {
            total: items.len(),
            items: items.into_iter(),
            hint,
        }
    }
}

impl<T> Iterator for Probe<T> {
    type Item = T;
    fn next(&mut self) -> Option<T> {
        hooks::probe_access();
        hooks::fault_point(FaultSite::ProbeNext);
        self.items.next()
    }
    fn size_hint(&self) -> (usize, Option<usize>) {
        // reading the wrapped iterator's state is a use of it as well (it must not race with `next`)
        hooks::probe_read();
        let rem = self.items.len();
        match self.hint {
            Hint::Exact => (rem, Some(rem)),
            Hint::Inexact => (rem / 2, Some(rem + 3)),
            Hint::Unbounded => (0, None),
        }
    }
}

// The probe is handed from thread to thread by the crate's ticket protocol; it holds no thread-bound state.
unsafe impl<T: Send> Send for Probe<T> {}

impl<T> Probe<T> {
    #[allow(dead_code)]
    pub fn total(&self) -> usize {
        self.total
    }
}

pub trait Body {
    type Out;
    fn run<I>(self, it: I, info: &SrcInfo) -> Self::Out
    where
        I: ConcurrentIter + AtomicIter<<I as ConcurrentIter>::Item>,
        I::Item: Elem;
}

pub fn val_of(case: &Case, pos: usize) -> u64 {
    // distinct pseudo-random values, never equal to the index
    mix(case.vseed, pos as u64) | 0x1_0000_0000
}

fn tracked_vec(case: &Case, led: &'static Ledger, cap: usize) -> Vec<Tracked> {
    let mut v = Vec::with_capacity(cap.max(case.len));
    for i in 0..case.len {
        v.push(Tracked::new(i as u32, val_of(case, i), led));
    }
    v
}

fn copy_vec(case: &Case) -> Vec<CopyEl> {
    (0..case.len)
        .map(|i| CopyEl {
            id: i as u32,
            val: val_of(case, i),
        })
        .collect()
}

fn table_info(case: &Case, addrs: Vec<usize>, has_ids: bool) -> SrcInfo {
    SrcInfo {
        kind: case.kind,
        len: case.len,
        vals: Vals::Table((0..case.len).map(|i| val_of(case, i)).collect()),
        addrs,
        has_ids,
    }
}

fn addrs_of<T>(s: &[T]) -> Vec<usize> {
    s.iter().map(|x| x as *const T as usize).collect()
}

pub fn snapshot(led: &Ledger, n: usize) -> LedgerSnap {
    let n = n.min(MAX_ELEMS);
    LedgerSnap {
        drops: (0..n).map(|i| led.drops_of(i as u32)).collect(),
        clones: (0..n).map(|i| led.clones_of(i as u32)).collect(),
        clone_drops: (0..n).map(|i| led.clone_drops_of(i as u32)).collect(),
        zst_drops: led.zst_drops.load(std::sync::atomic::Ordering::Relaxed),
        wild: led.wild.load(std::sync::atomic::Ordering::Relaxed),
    }
}

fn intact_tracked(case: &Case, v: &[Tracked], led: &Ledger) -> bool {
    v.len() == case.len
        && v.iter().enumerate().all(|(i, t)| {
            t.id == i as u32 && t.val == val_of(case, i) && !t.is_clone && led.drops_of(i as u32) == 0
        })
}

fn intact_copy(case: &Case, v: &[CopyEl]) -> bool {
    v.len() == case.len
        && v.iter()
            .enumerate()
            .all(|(i, t)| t.id == i as u32 && t.val == val_of(case, i))
}

/// Pulls `case.pre` elements before the adaptor is applied (C13: adapting a partly consumed iterator).
fn pre_pull<I: ConcurrentIter>(it: &I, case: &Case) {
    for _ in 0..case.pre {
        let _ = it.next();
    }
}

/// Which of the equivalent public constructors builds the iterator (all must behave identically).
fn ctor(case: &Case) -> u64 {
    case.vseed % 4
}

/// Range bounds of a range case.
pub fn range_bounds(case: &Case) -> (usize, usize) {
    let s = case.range_start;
    let e = case.range_end.unwrap_or_else(|| s.wrapping_add(case.len));
    (s, e)
}

#[macro_export]
macro_rules! with_array {
    ($n:expr, $mk:expr, |$a:ident| $body:expr) => {
        match $n {
            0 => {
                let $a: [_; 0] = std::array::from_fn($mk);
                $body
            }
            1 => {
                let $a: [_; 1] = std::array::from_fn($mk);
                $body
            }
            2 => {
                let $a: [_; 2] = std::array::from_fn($mk);
                $body
            }
            3 => {
                let $a: [_; 3] = std::array::from_fn($mk);
                $body
            }
            4 => {
                let $a: [_; 4] = std::array::from_fn($mk);
                $body
            }
            5 => {
                let $a: [_; 5] = std::array::from_fn($mk);
                $body
            }
            8 => {
                let $a: [_; 8] = std::array::from_fn($mk);
                $body
            }
            13 => {
                let $a: [_; 13] = std::array::from_fn($mk);
                $body
            }
            150 => {
                let $a: [_; 150] = std::array::from_fn($mk);
                $body
            }
            1300 => {
                let $a: [_; 1300] = std::array::from_fn($mk);
                $body
            }
            _ => panic!("array length {} is not instantiated", $n),
        }
    };
}

/// Builds the source of `case`, creates the concurrent iterator and hands it to `body`.
/// Returns the body's output and whether a borrowed source was found intact afterwards
/// (always true for consuming kinds and ranges). The source collection is dropped before returning.
pub fn with_source<B: Body>(case: &Case, body: B) -> (B::Out, bool) {
    let led = thread_ledger();
    led.reset(case.len.min(MAX_ELEMS));
    let n = case.len;
    match case.kind {
        Kind::Slice => {
            let v = tracked_vec(case, led, 0);
            let info = table_info(case, addrs_of(&v), true);
            let it = match ctor(case) {
                1 => ConIterOfSlice::new(v.as_slice()),
                2 => ConIterOfSlice::from(v.as_slice()),
                3 => v.as_slice().into(),
                _ => IntoConcurrentIter::into_con_iter(v.as_slice()),
            };
            pre_pull(&it, case);
            let out = body.run(it, &info);
            (out, intact_tracked(case, &v, led))
        }
        Kind::SliceCon => {
            let v = tracked_vec(case, led, 0);
            let info = table_info(case, addrs_of(&v), true);
            let s: &[Tracked] = v.as_slice();
            let it = ConcurrentIterable::con_iter(&s);
            let out = body.run(it, &info);
            (out, intact_tracked(case, &v, led))
        }
        Kind::VecRef => {
            let v = tracked_vec(case, led, n + case.extra_cap);
            let info = table_info(case, addrs_of(&v), true);
            let it = ConcurrentIterable::con_iter(&v);
            pre_pull(&it, case);
            let out = body.run(it, &info);
            (out, intact_tracked(case, &v, led))
        }
        Kind::ArrRef => with_array!(n, |i| Tracked::new(i as u32, val_of(case, i), led), |a| {
            let info = table_info(case, addrs_of(&a), true);
            let it = ConcurrentIterable::con_iter(&a);
            pre_pull(&it, case);
            let out = body.run(it, &info);
            (out, intact_tracked(case, &a, led))
        }),
        Kind::VecOwn => match case.layout {
            Layout::Tracked => {
                let v = tracked_vec(case, led, n + case.extra_cap);
                let info = table_info(case, vec![], true);
                let it = match ctor(case) {
                    1 => ConIterOfVec::new(v),
                    2 => ConIterOfVec::from(v),
                    3 => v.into(),
                    _ => IntoConcurrentIter::into_con_iter(v),
                };
                (body.run(it, &info), true)
            }
            Layout::Boxed => {
                let mut v = Vec::with_capacity(n + case.extra_cap);
                for i in 0..n {
                    v.push(Boxed::new(i as u32, val_of(case, i), led));
                }
                let info = table_info(case, vec![], true);
                let it = IntoConcurrentIter::into_con_iter(v);
                (body.run(it, &info), true)
            }
            Layout::Str => {
                let mut v = Vec::with_capacity(n + case.extra_cap);
                for i in 0..n {
                    v.push(StrEl::new(i as u32, val_of(case, i), led));
                }
                let info = table_info(case, vec![], true);
                let it = IntoConcurrentIter::into_con_iter(v);
                (body.run(it, &info), true)
            }
            Layout::Zst => {
                let mut v = Vec::with_capacity(n + case.extra_cap);
                for _ in 0..n {
                    v.push(Zst);
                }
                let mut info = table_info(case, vec![], false);
                info.vals = Vals::Table(vec![0; n]);
                let it = IntoConcurrentIter::into_con_iter(v);
                (body.run(it, &info), true)
            }
        },
        Kind::ArrOwn => match case.layout {
            Layout::Boxed => with_array!(n, |i| Boxed::new(i as u32, val_of(case, i), led), |a| {
                let info = table_info(case, vec![], true);
                let it = IntoConcurrentIter::into_con_iter(a);
                (body.run(it, &info), true)
            }),
            Layout::Str => with_array!(n, |i| StrEl::new(i as u32, val_of(case, i), led), |a| {
                let info = table_info(case, vec![], true);
                let it = IntoConcurrentIter::into_con_iter(a);
                (body.run(it, &info), true)
            }),
            Layout::Zst => with_array!(n, |_i| Zst, |a| {
                let mut info = table_info(case, vec![], false);
                info.vals = Vals::Table(vec![0; n]);
                let it = IntoConcurrentIter::into_con_iter(a);
                (body.run(it, &info), true)
            }),
            Layout::Tracked => {
                with_array!(n, |i| Tracked::new(i as u32, val_of(case, i), led), |a| {
                    let info = table_info(case, vec![], true);
                    let it = match ctor(case) {
                        1 => ConIterOfArray::new(a),
                        2 => ConIterOfArray::from(a),
                        3 => a.into(),
                        _ => IntoConcurrentIter::into_con_iter(a),
                    };
                    (body.run(it, &info), true)
                })
            }
        },
        Kind::Range | Kind::RangeInto => {
            let (s, e) = range_bounds(case);
            let info = SrcInfo {
                kind: case.kind,
                len: e.saturating_sub(s),
                vals: Vals::RangeFrom(s),
                addrs: vec![],
                has_ids: false,
            };
            let r = s..e;
            if case.kind == Kind::Range {
                let it = ConcurrentIterable::con_iter(&r);
                (body.run(it, &info), r == (s..e))
            } else {
                let it = match ctor(case) {
                    1 => ConIterOfRange::new(r),
                    2 => ConIterOfRange::from(r),
                    3 => r.into(),
                    _ => IntoConcurrentIter::into_con_iter(r),
                };
                (body.run(it, &info), true)
            }
        }
        Kind::IterOwn => match case.layout {
            Layout::Boxed => {
                let v: Vec<Boxed> = (0..n)
                    .map(|i| Boxed::new(i as u32, val_of(case, i), led))
                    .collect();
                let info = table_info(case, vec![], true);
                let it = IterIntoConcurrentIter::into_con_iter(Probe::new(v, case.hint));
                (body.run(it, &info), true)
            }
            Layout::Str => {
                let v: Vec<StrEl> = (0..n)
                    .map(|i| StrEl::new(i as u32, val_of(case, i), led))
                    .collect();
                let info = table_info(case, vec![], true);
                let it = IterIntoConcurrentIter::into_con_iter(Probe::new(v, case.hint));
                (body.run(it, &info), true)
            }
            _ => {
                let v = tracked_vec(case, led, 0);
                let info = table_info(case, vec![], true);
                let p = Probe::new(v, case.hint);
                let it = match ctor(case) {
                    1 => ConIterOfIter::new(p),
                    2 => ConIterOfIter::from(p),
                    3 => p.into(),
                    _ => IterIntoConcurrentIter::into_con_iter(p),
                };
                (body.run(it, &info), true)
            }
        },
        Kind::IterRef => {
            let v = tracked_vec(case, led, 0);
            let info = table_info(case, addrs_of(&v), true);
            let refs: Vec<&Tracked> = v.iter().collect();
            let it = IterIntoConcurrentIter::into_con_iter(Probe::new(refs, case.hint));
            pre_pull(&it, case);
            let out = body.run(it, &info);
            (out, intact_tracked(case, &v, led))
        }
        Kind::ClonedSlice => {
            let v = tracked_vec(case, led, 0);
            let info = table_info(case, addrs_of(&v), true);
            let it0 = IntoConcurrentIter::into_con_iter(v.as_slice());
            pre_pull(&it0, case);
            let it = it0.cloned();
            let out = body.run(it, &info);
            (out, intact_tracked(case, &v, led))
        }
        Kind::ClonedVecRef => {
            let v = tracked_vec(case, led, n + case.extra_cap);
            let info = table_info(case, addrs_of(&v), true);
            let it0 = ConcurrentIterable::con_iter(&v);
            pre_pull(&it0, case);
            let it = it0.cloned();
            let out = body.run(it, &info);
            (out, intact_tracked(case, &v, led))
        }
        Kind::ClonedArrRef => {
            with_array!(n, |i| Tracked::new(i as u32, val_of(case, i), led), |a| {
                let info = table_info(case, addrs_of(&a), true);
                let it0 = ConcurrentIterable::con_iter(&a);
                pre_pull(&it0, case);
                let it = it0.cloned();
                let out = body.run(it, &info);
                (out, intact_tracked(case, &a, led))
            })
        }
        Kind::ClonedIterRef => {
            let v = tracked_vec(case, led, 0);
            let info = table_info(case, addrs_of(&v), true);
            let refs: Vec<&Tracked> = v.iter().collect();
            let it0 = IterIntoConcurrentIter::into_con_iter(Probe::new(refs, case.hint));
            pre_pull(&it0, case);
            let it = it0.cloned();
            let out = body.run(it, &info);
            (out, intact_tracked(case, &v, led))
        }
        Kind::CopiedSlice => {
            let v = copy_vec(case);
            let info = table_info(case, addrs_of(&v), true);
            let it0 = IntoConcurrentIter::into_con_iter(v.as_slice());
            pre_pull(&it0, case);
            let it = it0.copied();
            let out = body.run(it, &info);
            (out, intact_copy(case, &v))
        }
        Kind::CopiedVecRef => {
            let v = copy_vec(case);
            let info = table_info(case, addrs_of(&v), true);
            let it0 = ConcurrentIterable::con_iter(&v);
            pre_pull(&it0, case);
            let it = it0.copied();
            let out = body.run(it, &info);
            (out, intact_copy(case, &v))
        }
        Kind::CopiedArrRef => with_array!(
            n,
            |i| CopyEl {
                id: i as u32,
                val: val_of(case, i)
            },
            |a| {
                let info = table_info(case, addrs_of(&a), true);
                let it0 = ConcurrentIterable::con_iter(&a);
                pre_pull(&it0, case);
                let it = it0.copied();
                let out = body.run(it, &info);
                (out, intact_copy(case, &a))
            }
        ),
        Kind::CopiedIterRef => {
            let v = copy_vec(case);
            let info = table_info(case, addrs_of(&v), true);
            let refs: Vec<&CopyEl> = v.iter().collect();
            let it0 = IterIntoConcurrentIter::into_con_iter(Probe::new(refs, case.hint));
            pre_pull(&it0, case);
            let it = it0.copied();
            let out = body.run(it, &info);
            (out, intact_copy(case, &v))
        }
    }
}
