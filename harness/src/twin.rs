//! Engine E4: the same cases under two compilations of the crate and the harness
//! (`twin-dbg`: debug assertions + overflow checks on; `twin-rel`: both off).
//!
//! `vharness child` is a line-oriented server: it reads a request per line and answers with one line.
//!   T <case-json>                 -> transcript of the sequential execution of the case
//!   J <prop> <engine> <case-json> -> verdict of the property's evaluation function
//! The driver keeps one pair of children per worker thread; a child that dies answers `ABORT(...)`
//! for that request and is respawned.

use crate::case::Case;
use crate::driver::Outcome;
use crate::history::{History, Res, TermRes};
use crate::known::verif_root;
use crate::oracle::Violation;
use std::cell::RefCell;
use std::io::{BufRead, BufReader, Write};
use std::process::{Child, ChildStdin, ChildStdout, Command, Stdio};

fn fmt_items(items: &[crate::elem::ItemRec]) -> String {
    items
        .iter()
        .map(|i| format!("{:x}/{}{}", i.val, i.id as i64, if i.is_clone { "c" } else { "" }))
        .collect::<Vec<_>>()
        .join(",")
}

/// Everything observable about a sequential execution, without addresses (they differ per process).
pub fn transcript_of(h: &History) -> String {
    let mut s = String::new();
    for o in &h.ops {
        s.push_str(&format!("t{}#{} {:?} ", o.thread, o.op_idx, o.tag));
        match &o.res {
            Res::End => s.push_str("End"),
            Res::One { idx, item } => s.push_str(&format!("One({:?},{})", idx, fmt_items(&[*item]))),
            Res::Chunk {
                begin,
                announced,
                items,
                len_ok,
                end_ok,
                fully_consumed,
                tail,
            } => s.push_str(&format!(
                "Chunk(begin={},len={},[{}],len_ok={},end_ok={},full={},tail=[{}])",
                begin,
                announced,
                fmt_items(items),
                len_ok,
                end_ok,
                fully_consumed,
                tail.iter().map(|(o, it)| format!("{}:{}", o, fmt_items(&[*it]))).collect::<Vec<_>>().join(",")
            )),
            other => s.push_str(&format!("{:?}", other)),
        }
        s.push_str("; ");
    }
    match &h.term {
        TermRes::Dropped => s.push_str("term=Dropped"),
        TermRes::Seq { items, total } => s.push_str(&format!("term=Seq([{}],total={:?})", fmt_items(items), total)),
        TermRes::Panicked(m) => s.push_str(&format!("term=Panicked({})", m)),
    }
    s.push_str(&format!(
        "; drops_mid={:?} drops_end={:?} zst={} wild={} intact={} held={:?}",
        h.ledger_mid.drops, h.ledger_end.drops, h.ledger_end.zst_drops, h.ledger_end.wild, h.source_intact, h.held_ids
    ));
    s.replace('\n', " ")
}

fn transcript(case: &Case) -> String {
    let t = {
        let h = crate::seq::run_seq(case);
        transcript_of(&h)
    };
    // second execution inside the allocation gate: "leaked bytes == 0" is part of the transcript
    // (not the allocation counts: an optimizer may elide allocations)
    let _ = crate::elem::thread_ledger();
    let (_, bytes, blocks) = crate::alloc::gated(|| {
        let h = crate::seq::run_seq(case);
        drop(h);
    });
    format!("{} leak_free={}", t, bytes == 0 && blocks == 0)
}

pub fn child_main() {
    let stdin = std::io::stdin();
    let stdout = std::io::stdout();
    let mut line = String::new();
    loop {
        line.clear();
        match stdin.lock().read_line(&mut line) {
            Ok(0) | Err(_) => return,
            Ok(_) => {}
        }
        let l = line.trim_end();
        let answer = if let Some(rest) = l.strip_prefix("T ") {
            match Case::parse(rest) {
                Ok(c) => transcript(&c),
                Err(e) => format!("ERROR bad case: {}", e),
            }
        } else if let Some(rest) = l.strip_prefix("J ") {
            let mut it = rest.splitn(3, ' ');
            let (prop, engine, cj) = (it.next().unwrap_or(""), it.next().unwrap_or(""), it.next().unwrap_or(""));
            match (Case::parse(cj), crate::props::eval_for(prop, engine)) {
                (Ok(c), Some(eval)) => {
                    let o = eval(&c);
                    match o.verdict {
                        Ok(()) => format!("OK\t{}\t{}", o.nontrivial as u8, o.classes.join(",")),
                        Err(v) => format!("VIOLATION\t{}\t{}\t{}", v.what, o.sig_ctx, v.detail.replace(['\n', '\t'], " ")),
                    }
                }
                (Err(e), _) => format!("ERROR bad case: {}", e),
                (_, None) => format!("ERROR no evaluator for {} {}", prop, engine),
            }
        } else {
            "ERROR bad request".to_string()
        };
        let mut out = stdout.lock();
        if writeln!(out, "{}", answer).is_err() || out.flush().is_err() {
            return;
        }
    }
}

struct Proc {
    path: std::path::PathBuf,
    child: Option<(Child, ChildStdin, BufReader<ChildStdout>)>,
    /// where the child's stderr goes (sanitizer reports); None = discarded
    stderr_to: Option<std::path::PathBuf>,
    env: Vec<(String, String)>,
}

impl Proc {
    fn spawn(&mut self) -> bool {
        let stderr = match &self.stderr_to {
            Some(p) => std::fs::File::create(p).map(Stdio::from).unwrap_or_else(|_| Stdio::null()),
            None => Stdio::null(),
        };
        let mut cmd = Command::new(&self.path);
        cmd.arg("child").env("VERIF_ROOT", verif_root());
        for (k, v) in &self.env {
            cmd.env(k, v);
        }
        let c = cmd.stdin(Stdio::piped()).stdout(Stdio::piped()).stderr(stderr).spawn();
        match c {
            Ok(mut c) => {
                let i = c.stdin.take().expect("stdin");
                let o = BufReader::new(c.stdout.take().expect("stdout"));
                self.child = Some((c, i, o));
                true
            }
            Err(_) => false,
        }
    }

    fn ask(&mut self, req: &str) -> String {
        if self.child.is_none() && !self.spawn() {
            return format!("ERROR cannot start {}", self.path.display());
        }
        let (c, i, o) = self.child.as_mut().expect("child");
        let sent = writeln!(i, "{}", req).and_then(|_| i.flush());
        let mut line = String::new();
        let got = if sent.is_ok() { o.read_line(&mut line).unwrap_or(0) } else { 0 };
        if got == 0 {
            // the child died while serving this request
            let status = c.wait().ok();
            self.child = None;
            #[cfg(unix)]
            {
                use std::os::unix::process::ExitStatusExt;
                if let Some(sig) = status.and_then(|s| s.signal()) {
                    return format!("ABORT(signal {})", sig);
                }
            }
            return format!("ABORT(exit {:?})", status.and_then(|s| s.code()));
        }
        line.trim_end().to_string()
    }
}

impl Drop for Proc {
    fn drop(&mut self) {
        if let Some((mut c, i, _)) = self.child.take() {
            drop(i);
            let _ = c.wait();
        }
    }
}

pub struct Pair {
    dbg: Proc,
    rel: Proc,
}

pub fn twin_paths() -> (std::path::PathBuf, std::path::PathBuf) {
    let base = verif_root().join("harness").join("target");
    let d = std::env::var("VERIF_TWIN_DBG").map(Into::into).unwrap_or_else(|_| base.join("twin-dbg").join("vharness"));
    let r = std::env::var("VERIF_TWIN_REL").map(Into::into).unwrap_or_else(|_| base.join("twin-rel").join("vharness"));
    (d, r)
}

thread_local! {
    static PAIR: RefCell<Option<Pair>> = const { RefCell::new(None) };
}

/// Sends the request to both twins of this worker thread.
pub fn ask_both(req: &str) -> (String, String) {
    PAIR.with(|p| {
        let mut p = p.borrow_mut();
        if p.is_none() {
            let (d, r) = twin_paths();
            *p = Some(Pair {
                dbg: Proc { path: d, child: None, stderr_to: None, env: vec![] },
                rel: Proc { path: r, child: None, stderr_to: None, env: vec![] },
            });
        }
        let pair = p.as_mut().expect("pair");
        (pair.dbg.ask(req), pair.rel.ask(req))
    })
}

fn intern(s: &str) -> &'static str {
    use std::collections::HashSet;
    use std::sync::Mutex;
    static SET: Mutex<Option<HashSet<&'static str>>> = Mutex::new(None);
    let mut g = SET.lock().expect("lock");
    let set = g.get_or_insert_with(HashSet::new);
    if let Some(x) = set.get(s) {
        return x;
    }
    let l: &'static str = Box::leak(s.to_string().into_boxed_str());
    set.insert(l);
    l
}

/// Parses a `J` answer. `build` names the twin for messages.
pub fn parse_verdict(ans: &str, build: &str) -> Result<(bool, Vec<&'static str>), (Violation, String)> {
    let parts: Vec<&str> = ans.split('\t').collect();
    match parts.first().copied() {
        Some("OK") if parts.len() >= 3 => Ok((
            parts[1] == "1",
            parts[2].split(',').filter(|x| !x.is_empty()).map(intern).collect(),
        )),
        Some("VIOLATION") if parts.len() >= 4 => Err((
            Violation {
                what: intern(parts[1]),
                detail: format!("[{} build] {}", build, parts[3]),
            },
            parts[2].to_string(),
        )),
        _ => Err((
            Violation {
                what: if ans.starts_with("ABORT") { "abort" } else { "twin-error" },
                detail: format!("[{} build] the process running the case answered: {}", build, ans),
            },
            String::new(),
        )),
    }
}

/// Evaluates `prop` on the case in both twins; the first violation wins.
pub fn judge_in_twins(prop: &str, engine: &str, case: &Case) -> Outcome {
    let req = format!("J {} {} {}", prop, engine, case.to_line());
    let (d, r) = ask_both(&req);
    let pd = parse_verdict(&d, "debug-assertions+overflow-checks");
    let pr = parse_verdict(&r, "release");
    let mut classes: Vec<&'static str> = vec![];
    let mut nontrivial = false;
    let mut verdict = Ok(());
    let mut ctx = String::new();
    for p in [pd, pr] {
        match p {
            Ok((nt, cl)) => {
                nontrivial |= nt;
                if classes.is_empty() {
                    classes = cl;
                }
            }
            Err((v, c)) => {
                if verdict.is_ok() {
                    verdict = Err(v);
                    ctx = c;
                }
            }
        }
    }
    Outcome {
        verdict,
        sig_ctx: ctx,
        nontrivial,
        classes,
        inconclusive: false,
        evals: 2,
        dfs: None,
        witness: None,
    }
}

/// C17: transcripts of both twins must be identical.
pub fn eval_c17(case: &Case) -> Outcome {
    let req = format!("T {}", case.to_line());
    let (d, r) = ask_both(&req);
    let kind = crate::oracle::kind_class(case.kind);
    let has_chunk = case.threads.iter().any(|t| {
        t.iter().any(|o| {
            matches!(
                o,
                crate::case::Op::Chunk { .. }
                    | crate::case::Op::BufNext { .. }
                    | crate::case::Op::Drain(crate::case::How::Chunk(_))
                    | crate::case::Op::Drain(crate::case::How::Buf(_))
                    | crate::case::Op::Drain(crate::case::How::ForEach(_))
                    | crate::case::Op::Drain(crate::case::How::EnumForEach(_))
                    | crate::case::Op::Drain(crate::case::How::Fold(_))
            )
        })
    });
    let mut classes = vec![kind];
    if has_chunk {
        classes.push("chunk-pull");
    }
    if case.kind.consuming() {
        classes.push("consuming-terminal");
    }
    let broken = d.starts_with("ERROR") || r.starts_with("ERROR");
    let verdict = if broken || d == r {
        // identical observable behaviour (a leak or a panic common to both builds is not a difference)
        Ok(())
    } else {
        let what = if d.starts_with("ABORT") && !r.starts_with("ABORT") {
            "abort-in-debug-only"
        } else if r.starts_with("ABORT") && !d.starts_with("ABORT") {
            "abort-in-release-only"
        } else {
            "twin-mismatch"
        };
        Err(Violation {
            what,
            detail: format!("debug build: {} || release build: {}", shorten(&d, &r), shorten(&r, &d)),
        })
    };
    if broken {
        eprintln!("twin trouble: debug: {} | release: {}", d, r);
    }
    Outcome {
        verdict,
        sig_ctx: kind.to_string(),
        nontrivial: !broken && (has_chunk || case.kind.consuming()),
        classes,
        inconclusive: broken,
        evals: 2,
        dfs: None,
        witness: None,
    }
}

/// the part of `a` around the first difference with `b`
fn shorten(a: &str, b: &str) -> String {
    if a.len() < 300 {
        return a.to_string();
    }
    let i = a.bytes().zip(b.bytes()).position(|(x, y)| x != y).unwrap_or(0);
    let start = i.saturating_sub(80);
    let mut st = start;
    while !a.is_char_boundary(st) {
        st -= 1;
    }
    format!("...{}", a[st..].chars().take(300).collect::<String>())
}

// ------------------------------------------------------------------------------------------------
// Per-case process isolation (VERIF_ISOLATE=1): every case is evaluated by a child process of the same
// binary, so that memory corruption in the code under test kills the child, not the check; a child
// that dies while evaluating a case is a violation ("crash") of the property being checked.

thread_local! {
    static ISO: RefCell<Option<Proc>> = const { RefCell::new(None) };
}

pub fn isolate_enabled() -> bool {
    std::env::var("VERIF_ISOLATE").ok().as_deref() == Some("1")
}

/// Evaluates the case in this worker's child process (same binary, `child` mode).
pub fn judge_isolated(prop: &str, engine: &str, case: &Case) -> Outcome {
    let req = format!("J {} {} {}", prop, engine, case.to_line());
    let ans = ISO.with(|p| {
        let mut p = p.borrow_mut();
        if p.is_none() {
            let exe = std::env::current_exe().unwrap_or_else(|_| "vharness".into());
            *p = Some(Proc { path: exe, child: None, stderr_to: None, env: vec![] });
        }
        p.as_mut().expect("proc").ask(&req)
    });
    let kind = crate::oracle::kind_class(case.kind).to_string();
    if ans.starts_with("ABORT") {
        return Outcome {
            verdict: Err(Violation {
                what: "crash",
                detail: format!("the process executing this case died ({}): memory corruption or an abort inside the code under test", ans),
            }),
            sig_ctx: kind,
            nontrivial: false,
            classes: vec!["crash"],
            inconclusive: false,
            evals: 1,
            dfs: None,
            witness: None,
        };
    }
    match parse_verdict(&ans, "isolated") {
        Ok((nt, cl)) => Outcome {
            verdict: Ok(()),
            sig_ctx: kind,
            nontrivial: nt,
            classes: cl,
            inconclusive: false,
            evals: 1,
            dfs: None,
            witness: None,
        },
        Err((v, ctx)) => {
            let trouble = v.what == "twin-error";
            Outcome {
                verdict: if trouble { Ok(()) } else { Err(Violation { what: v.what, detail: v.detail.replacen("[isolated build] ", "", 1) }) },
                sig_ctx: if ctx.is_empty() { kind } else { ctx },
                nontrivial: false,
                classes: vec![],
                inconclusive: trouble,
                evals: 1,
                dfs: None,
                witness: None,
            }
        }
    }
}

// ------------------------------------------------------------------------------------------------
// ThreadSanitizer stage (C07): real-thread cases are executed by a child built with -Zsanitizer=thread;
// a data-race report kills the child (exit code 66) and is a violation of the case being executed.

thread_local! {
    static TSAN: RefCell<Option<Proc>> = const { RefCell::new(None) };
}

pub fn tsan_binary() -> std::path::PathBuf {
    std::env::var("VERIF_TSAN_BIN").map(Into::into).unwrap_or_else(|_| {
        verif_root().join("harness").join("target-tsan").join("x86_64-unknown-linux-gnu").join("release").join("vharness")
    })
}

pub fn judge_under_tsan(prop: &str, engine: &str, case: &Case) -> Outcome {
    let req = format!("J {} {} {}", prop, engine, case.to_line());
    let (ans, report) = TSAN.with(|p| {
        let mut p = p.borrow_mut();
        if p.is_none() {
            let log = verif_root().join("harness").join("target-tsan").join(format!("stderr-{:?}.log", std::thread::current().id()).replace(['(', ')'], ""));
            *p = Some(Proc {
                path: tsan_binary(),
                child: None,
                stderr_to: Some(log),
                env: vec![("TSAN_OPTIONS".into(), "halt_on_error=1 exitcode=66 second_deadlock_stack=0".into())],
            });
        }
        let pr = p.as_mut().expect("proc");
        let ans = pr.ask(&req);
        let report = if ans.starts_with("ABORT") {
            pr.stderr_to.as_ref().and_then(|f| std::fs::read_to_string(f).ok()).unwrap_or_default()
        } else {
            String::new()
        };
        (ans, report)
    });
    let kind = crate::oracle::kind_class(case.kind).to_string();
    let mk = |verdict, nontrivial, classes: Vec<&'static str>, inconclusive| Outcome {
        verdict,
        sig_ctx: kind.clone(),
        nontrivial,
        classes,
        inconclusive,
        evals: 1,
        dfs: None,
        witness: None,
    };
    if ans.starts_with("ABORT") {
        let race = report.contains("ThreadSanitizer: data race");
        let frames: Vec<&str> = report.lines().filter(|l| l.trim_start().starts_with("#0") || l.trim_start().starts_with("#1")).take(4).map(|l| l.trim()).collect();
        let summary = report.lines().find(|l| l.starts_with("SUMMARY")).unwrap_or("");
        return mk(
            Err(Violation {
                what: if race { "data-race-tsan" } else { "crash" },
                detail: format!(
                    "the process executing this case on real threads under ThreadSanitizer died ({}): {} | {}",
                    ans,
                    summary,
                    frames.join(" | ").chars().take(700).collect::<String>()
                ),
            }),
            false,
            vec!["tsan-report"],
            false,
        );
    }
    match parse_verdict(&ans, "tsan") {
        Ok((nt, cl)) => mk(Ok(()), nt, cl, false),
        Err((v, _)) => {
            let trouble = v.what == "twin-error";
            mk(if trouble { Ok(()) } else { Err(Violation { what: v.what, detail: v.detail }) }, false, vec![], trouble)
        }
    }
}
