//! Engine E5: generated client programs, oracle = the compiler's verdict (C14, "programs" part).
//!
//! Every negative program (one the property says must be rejected) is generated together with a
//! valid twin that differs only in the offending detail and must compile, so that a probe failing
//! for an unrelated reason is detected as harness trouble instead of passing as a "rejection".

use crate::known::verif_root;
use std::path::PathBuf;
use std::process::Command;

#[derive(Clone, Debug, PartialEq, Eq)]
pub enum Expect {
    Accept,
    /// must be rejected with at least one of these error codes
    Reject(&'static [&'static str]),
}

#[derive(Clone, Debug)]
pub struct Program {
    pub name: String,
    /// class of the probe, used in violation signatures
    pub class: &'static str,
    pub src: String,
    pub expect: Expect,
    /// name of the twin program (negative <-> positive)
    pub twin: Option<String>,
}

#[derive(Clone, Debug)]
pub struct Compiled {
    pub ok: bool,
    pub codes: Vec<String>,
    pub first_error: String,
}

const THREAD_SAFETY: &[&str] = &["E0277", "E0599"];

struct Ctor {
    name: &'static str,
    /// statements creating `it`; `{T}` = element type
    setup: &'static str,
    /// the iterator owns its data ('static if T is)
    owning: bool,
    needs_clone: bool,
    needs_copy: bool,
}

const CTORS: &[Ctor] = &[
    Ctor { name: "vec_con_iter", setup: "let data: Vec<{T}> = Vec::new(); let it = data.con_iter();", owning: false, needs_clone: false, needs_copy: false },
    Ctor { name: "vec_into_con_iter", setup: "let data: Vec<{T}> = Vec::new(); let it = data.into_con_iter();", owning: true, needs_clone: false, needs_copy: false },
    Ctor { name: "slice_con_iter", setup: "let data: Vec<{T}> = Vec::new(); let s: &[{T}] = &data; let it = s.con_iter();", owning: false, needs_clone: false, needs_copy: false },
    Ctor { name: "slice_into_con_iter", setup: "let data: Vec<{T}> = Vec::new(); let s: &[{T}] = &data; let it = s.into_con_iter();", owning: false, needs_clone: false, needs_copy: false },
    Ctor { name: "array_con_iter", setup: "let data: [{T}; 0] = []; let it = data.con_iter();", owning: false, needs_clone: false, needs_copy: false },
    Ctor { name: "array_into_con_iter", setup: "let data: [{T}; 0] = []; let it = data.into_con_iter();", owning: true, needs_clone: false, needs_copy: false },
    Ctor { name: "ConIterOfSlice_new", setup: "let data: Vec<{T}> = Vec::new(); let it = ConIterOfSlice::new(&data[..]);", owning: false, needs_clone: false, needs_copy: false },
    Ctor { name: "ConIterOfSlice_from", setup: "let data: Vec<{T}> = Vec::new(); let it = ConIterOfSlice::from(&data[..]);", owning: false, needs_clone: false, needs_copy: false },
    Ctor { name: "ConIterOfVec_new", setup: "let data: Vec<{T}> = Vec::new(); let it = ConIterOfVec::new(data);", owning: true, needs_clone: false, needs_copy: false },
    Ctor { name: "ConIterOfVec_from", setup: "let data: Vec<{T}> = Vec::new(); let it = ConIterOfVec::from(data);", owning: true, needs_clone: false, needs_copy: false },
    Ctor { name: "ConIterOfArray_new", setup: "let data: [{T}; 0] = []; let it = ConIterOfArray::new(data);", owning: true, needs_clone: false, needs_copy: false },
    Ctor { name: "iter_into_con_iter", setup: "let data: Vec<{T}> = Vec::new(); let it = data.into_iter().into_con_iter();", owning: true, needs_clone: false, needs_copy: false },
    Ctor { name: "ConIterOfIter_new", setup: "let data: Vec<{T}> = Vec::new(); let it = ConIterOfIter::new(data.into_iter());", owning: true, needs_clone: false, needs_copy: false },
    Ctor { name: "ref_iter_into_con_iter", setup: "let data: Vec<{T}> = Vec::new(); let it = data.iter().into_con_iter();", owning: false, needs_clone: false, needs_copy: false },
    Ctor { name: "slice_cloned", setup: "let data: Vec<{T}> = Vec::new(); let it = data.con_iter().cloned();", owning: false, needs_clone: true, needs_copy: false },
    Ctor { name: "slice_copied", setup: "let data: Vec<{T}> = Vec::new(); let it = data.con_iter().copied();", owning: false, needs_clone: false, needs_copy: true },
    Ctor { name: "ref_iter_cloned", setup: "let data: Vec<{T}> = Vec::new(); let it = data.iter().into_con_iter().cloned();", owning: false, needs_clone: true, needs_copy: false },
    Ctor { name: "ref_iter_copied", setup: "let data: Vec<{T}> = Vec::new(); let it = data.iter().into_con_iter().copied();", owning: false, needs_clone: false, needs_copy: true },
];

struct Ty {
    name: &'static str,
    ty: &'static str,
    /// Send + Sync
    good: bool,
    sync: bool,
    clone: bool,
    copy: bool,
}

const TYPES: &[Ty] = &[
    Ty { name: "usize", ty: "usize", good: true, sync: true, clone: true, copy: true },
    Ty { name: "String", ty: "String", good: true, sync: true, clone: true, copy: false },
    Ty { name: "Rc", ty: "std::rc::Rc<u8>", good: false, sync: false, clone: true, copy: false },
    Ty { name: "Cell", ty: "std::cell::Cell<u8>", good: false, sync: false, clone: true, copy: false },
    Ty { name: "RawPtr", ty: "*const u8", good: false, sync: false, clone: true, copy: true },
    Ty { name: "MutexGuard", ty: "std::sync::MutexGuard<'static, u8>", good: false, sync: true, clone: false, copy: false },
];

const USE_CONSTRUCT: &str = "let _ = &it;";
const USE_SHARE: &str = "std::thread::scope(|s| { s.spawn(|| { let _ = it.next(); }); s.spawn(|| { let _ = it.next_chunk(2).map(|c| c.values.count()); }); });";
const USE_SPAWN: &str = "std::thread::spawn(move || { let _ = it.next(); }).join().unwrap();";

fn wrap(body: &str) -> String {
    format!(
        "#![allow(unused, dropping_references, dropping_copy_types, forgetting_references)]\nuse orx_concurrent_iter::*;\nfn main() {{\n{}\n}}\n",
        body
    )
}

/// The whole (finite) family of programs.
pub fn programs() -> Vec<Program> {
    let mut out = vec![];
    // ---- thread safety of element types: every constructor x element type x usage -----------------
    for c in CTORS {
        let twin_ty = if c.needs_copy { "usize" } else { "String" };
        for t in TYPES {
            if (c.needs_clone && !t.clone) || (c.needs_copy && !t.copy) {
                continue;
            }
            for (uname, usage, only_owning) in [("construct", USE_CONSTRUCT, false), ("share", USE_SHARE, false), ("spawn", USE_SPAWN, true)] {
                if only_owning && !c.owning {
                    continue;
                }
                // a wrapped iterator of references only moves `&T` between threads: `T: Sync` is what is needed
                let ok = t.good || (c.name == "ref_iter_into_con_iter" && t.sync);
                let body = format!("{}\n{}", c.setup.replace("{T}", t.ty), usage);
                let name = format!("ts-{}-{}-{}", c.name, t.name, uname);
                let twin = format!("ts-{}-{}-{}", c.name, if ok { t.name } else { twin_ty }, uname);
                out.push(Program {
                    name: name.clone(),
                    class: "element-not-thread-safe",
                    src: wrap(&body),
                    expect: if ok { Expect::Accept } else { Expect::Reject(THREAD_SAFETY) },
                    twin: if ok { None } else { Some(twin) },
                });
            }
        }
    }
    // ---- wrapped sequential iterator that may not cross threads ------------------------------------
    let w_bad = "let rc = std::rc::Rc::new(std::cell::Cell::new(0usize)); let rc2 = rc.clone();\nlet src = std::iter::from_fn(move || { rc2.set(rc2.get() + 1); if rc2.get() < 10 { Some(rc2.get()) } else { None } });";
    let w_good = "let rc = std::sync::Arc::new(std::sync::atomic::AtomicUsize::new(0)); let rc2 = rc.clone();\nlet src = std::iter::from_fn(move || { let v = rc2.fetch_add(1, std::sync::atomic::Ordering::SeqCst); if v < 10 { Some(v) } else { None } });";
    for (cname, ctor) in [("into_con_iter", "let it = src.into_con_iter();"), ("ConIterOfIter_new", "let it = ConIterOfIter::new(src);"), ("ConIterOfIter_from", "let it: ConIterOfIter<usize, _> = src.into();")] {
        for (uname, usage) in [("share", USE_SHARE), ("spawn", USE_SPAWN)] {
            let extra = if uname == "share" { "rc.set(5);" } else { "" };
            out.push(Program {
                name: format!("wr-{}-rc-{}", cname, uname),
                class: "wrapped-iterator-not-send",
                src: wrap(&format!("{}\n{}\n{}\n{}", w_bad, ctor, usage, extra)),
                expect: Expect::Reject(THREAD_SAFETY),
                twin: Some(format!("wr-{}-arc-{}", cname, uname)),
            });
            out.push(Program {
                name: format!("wr-{}-arc-{}", cname, uname),
                class: "wrapped-iterator-not-send",
                src: wrap(&format!("{}\n{}\n{}", w_good, ctor, usage)),
                expect: Expect::Accept,
                twin: None,
            });
        }
    }
    // ---- user-defined implementors of the public AtomicIter trait behind cloned() / copied() -----------
    // (the unsafe Send/Sync impls of the adaptors are only bounded by `A: AtomicIter<&T>`)
    for (adaptor, elem) in [("cloned", "u64"), ("copied", "u64")] {
        for (state_name, state_ty, state_new, touch, good) in [
            ("cell", "std::cell::Cell<u64>", "std::cell::Cell::new(0)", "self.state.set(self.state.get() + 1);", false),
            ("rc", "std::rc::Rc<u64>", "std::rc::Rc::new(0)", "let _ = std::rc::Rc::strong_count(&self.state);", false),
            ("atomic", "std::sync::atomic::AtomicU64", "std::sync::atomic::AtomicU64::new(0)", "self.state.fetch_add(1, std::sync::atomic::Ordering::Relaxed);", true),
        ] {
            let body = format!(
                "use orx_concurrent_iter::iter::atomic_iter::AtomicIter;\nstruct Mine<'a> {{ data: &'a [{e}], counter: AtomicCounter, state: {st} }}\nimpl<'a> AtomicIter<&'a {e}> for Mine<'a> {{\n  fn counter(&self) -> &AtomicCounter {{ &self.counter }}\n  fn progress_and_get_begin_idx(&self, n: usize) -> Option<usize> {{ let b = self.counter.fetch_and_add(n); if b < self.data.len() {{ Some(b) }} else {{ None }} }}\n  fn get(&self, i: usize) -> Option<&'a {e}> {{ {touch} self.data.get(i) }}\n  fn fetch_n(&self, n: usize) -> Option<NextChunk<&'a {e}, impl ExactSizeIterator<Item = &'a {e}>>> {{ self.progress_and_get_begin_idx(n).map(|b| NextChunk {{ begin_idx: b, values: self.data[b..(b + n).min(self.data.len())].iter() }}) }}\n  fn early_exit(&self) {{ self.counter.store(self.data.len()) }}\n}}\nfn run() {{\n  let data: Vec<{e}> = vec![1, 2, 3];\n  let it = Mine {{ data: &data, counter: AtomicCounter::new(), state: {new} }}.{ad}();\n  std::thread::scope(|s| {{ s.spawn(|| {{ let _ = it.fetch_one(); }}); s.spawn(|| {{ let _ = it.fetch_n(2).map(|c| c.values.count()); }}); }});\n}}",
                e = elem, st = state_ty, new = state_new, touch = touch, ad = adaptor
            );
            let src = format!("#![allow(unused)]\nuse orx_concurrent_iter::*;\n{}\nfn main() {{ run(); }}\n", body).replace("\\n", "\n");
            out.push(Program {
                name: format!("ua-{}-{}", adaptor, state_name),
                class: "user-atomic-iter-not-thread-safe",
                src,
                expect: if good { Expect::Accept } else { Expect::Reject(THREAD_SAFETY) },
                twin: if good { None } else { Some(format!("ua-{}-atomic", adaptor)) },
            });
        }
    }
    // ---- borrows: references and chunks may not outlive their source / buffer ----------------------
    struct B {
        name: &'static str,
        decl: &'static str,
        it: &'static str,
        refs: bool,
    }
    let borrowing: &[B] = &[
        B { name: "vec_con_iter", decl: "let mut data: Vec<usize> = vec![1, 2, 3];", it: "data.con_iter()", refs: true },
        B { name: "slice_con_iter", decl: "let mut data: Vec<usize> = vec![1, 2, 3]; let s: &[usize] = &data[..];", it: "s.con_iter()", refs: true },
        B { name: "slice_into_con_iter", decl: "let mut data: Vec<usize> = vec![1, 2, 3];", it: "(&data[..]).into_con_iter()", refs: true },
        B { name: "array_con_iter", decl: "let mut data: [usize; 3] = [1, 2, 3];", it: "data.con_iter()", refs: true },
        B { name: "ConIterOfSlice_new", decl: "let mut data: Vec<usize> = vec![1, 2, 3];", it: "ConIterOfSlice::new(&data[..])", refs: true },
        B { name: "ref_iter", decl: "let mut data: Vec<usize> = vec![1, 2, 3];", it: "data.iter().into_con_iter()", refs: true },
        B { name: "cloned", decl: "let mut data: Vec<usize> = vec![1, 2, 3];", it: "data.con_iter().cloned()", refs: false },
        B { name: "copied", decl: "let mut data: Vec<usize> = vec![1, 2, 3];", it: "data.con_iter().copied()", refs: false },
    ];
    let mut pair = |out: &mut Vec<Program>, name: String, class: &'static str, bad: String, codes: &'static [&'static str], good: String| {
        out.push(Program { name: format!("{}-bad", name), class, src: wrap(&bad), expect: Expect::Reject(codes), twin: Some(format!("{}-ok", name)) });
        out.push(Program { name: format!("{}-ok", name), class, src: wrap(&good), expect: Expect::Accept, twin: None });
    };
    for b in borrowing {
        if b.refs {
            // L1: a delivered reference outlives the collection
            pair(&mut out, format!("lt-ref-outlives-{}", b.name), "reference-outlives-collection",
                format!("let r;\n{{ {} let it = {}; r = it.next(); }}\nprintln!(\"{{:?}}\", r);", b.decl, b.it),
                &["E0597", "E0716", "E0505"],
                format!("{} let it = {}; let r = it.next(); println!(\"{{:?}}\", r);", b.decl, b.it));
            // L1b: Next<&T> outlives the collection
            pair(&mut out, format!("lt-next-outlives-{}", b.name), "reference-outlives-collection",
                format!("let r;\n{{ {} let it = {}; r = it.next_id_and_value(); }}\nprintln!(\"{{:?}}\", r.map(|x| x.idx));", b.decl, b.it),
                &["E0597", "E0716", "E0505"],
                format!("{} let it = {}; let r = it.next_id_and_value(); println!(\"{{:?}}\", r.map(|x| x.idx));", b.decl, b.it));
            // L7: remainder of a borrowing iterator outlives the collection
            pair(&mut out, format!("lt-seq-outlives-{}", b.name), "reference-outlives-collection",
                format!("let rem;\n{{ {} rem = {}.into_seq_iter(); }}\nprintln!(\"{{}}\", rem.count());", b.decl, b.it),
                &["E0597", "E0716", "E0505"],
                format!("{} let rem = {}.into_seq_iter(); println!(\"{{}}\", rem.count());", b.decl, b.it));
        }
        // L4: mutate the collection while the iterator is alive
        pair(&mut out, format!("lt-mutate-while-iterating-{}", b.name), "collection-mutated-while-borrowed",
            format!("{} let it = {}; data[0] = 7; let _ = it.next();", b.decl, b.it),
            &["E0502", "E0506", "E0499"],
            format!("{} let it = {}; let _ = it.next(); drop(it); data[0] = 7;", b.decl, b.it));
        // L8: move the collection while the iterator is alive (arrays of usize are Copy: a "move" is a copy)
        if !b.decl.contains("[usize; 3]") {
        pair(&mut out, format!("lt-move-while-iterating-{}", b.name), "collection-mutated-while-borrowed",
            format!("{} let it = {}; let moved = data; let _ = it.next();", b.decl, b.it),
            &["E0505"],
            format!("{} let it = {}; let _ = it.next(); drop(it); let moved = data;", b.decl, b.it));
        }
    }
    // every kind: chunks, buffered iterators and adaptors may not outlive what they borrow
    struct K {
        name: &'static str,
        mk: &'static str,
    }
    let kinds: &[K] = &[
        K { name: "vec_ref", mk: "let data: Vec<usize> = vec![1, 2, 3, 4]; let it = data.con_iter();" },
        K { name: "vec_own", mk: "let data: Vec<String> = vec![String::new(), String::new(), String::new()]; let it = data.into_con_iter();" },
        K { name: "array_own", mk: "let data: [String; 3] = [String::new(), String::new(), String::new()]; let it = data.into_con_iter();" },
        K { name: "range", mk: "let it = (0..10usize).con_iter();" },
        K { name: "range_into", mk: "let it = IntoConcurrentIter::into_con_iter(0..10usize);" },
        K { name: "iter_own", mk: "let data: Vec<String> = vec![String::new(), String::new(), String::new()]; let it = data.into_iter().into_con_iter();" },
        K { name: "cloned", mk: "let data: Vec<String> = vec![String::new(), String::new(), String::new()]; let it = data.con_iter().cloned();" },
        K { name: "copied", mk: "let data: Vec<usize> = vec![1, 2, 3, 4]; let it = data.con_iter().copied();" },
        K { name: "iter_ref_cloned", mk: "let data: Vec<String> = vec![String::new(), String::new(), String::new()]; let it = data.iter().into_con_iter().cloned();" },
    ];
    for k in kinds {
        // L2: a buffered chunk held across the next pull of its buffer
        pair(&mut out, format!("lt-chunk-across-pull-{}", k.name), "chunk-outlives-next-pull",
            format!("{} let mut b = it.buffered_iter(2); let c1 = b.next(); let c2 = b.next(); drop(c1); drop(c2);", k.mk),
            &["E0499"],
            format!("{} let mut b = it.buffered_iter(2); let c1 = b.next(); drop(c1); let c2 = b.next(); drop(c2);", k.mk));
        // L2b: the values of a buffered chunk held across the next pull
        pair(&mut out, format!("lt-values-across-pull-{}", k.name), "chunk-outlives-next-pull",
            format!("{} let mut b = it.buffered_iter(2); let v1 = b.next().map(|c| c.values); let c2 = b.next(); drop(v1); drop(c2);", k.mk),
            &["E0499"],
            format!("{} let mut b = it.buffered_iter(2); let v1 = b.next().map(|c| c.values); drop(v1); let c2 = b.next(); drop(c2);", k.mk));
        // L3: a buffered iterator outlives the concurrent iterator
        pair(&mut out, format!("lt-buffered-outlives-iter-{}", k.name), "borrow-outlives-iterator",
            format!("let mut b;\n{{ {} b = it.buffered_iter(2); }}\nlet _ = b.next().map(|c| c.begin_idx);", k.mk),
            &["E0597", "E0505"],
            format!("{} let mut b = it.buffered_iter(2); let _ = b.next().map(|c| c.begin_idx);", k.mk));
        // L5: values() / ids_and_values() outlive the iterator
        pair(&mut out, format!("lt-values-adaptor-outlives-iter-{}", k.name), "borrow-outlives-iterator",
            format!("let mut v;\n{{ {} v = it.values(); }}\nlet _ = v.next().is_some();", k.mk),
            &["E0597", "E0505"],
            format!("{} let mut v = it.values(); let _ = v.next().is_some();", k.mk));
        pair(&mut out, format!("lt-ids-adaptor-outlives-iter-{}", k.name), "borrow-outlives-iterator",
            format!("let mut v;\n{{ {} v = it.ids_and_values(); }}\nlet _ = v.next().is_some();", k.mk),
            &["E0597", "E0505"],
            format!("{} let mut v = it.ids_and_values(); let _ = v.next().is_some();", k.mk));
        // L6: a one-shot chunk outlives the iterator whose storage it reads
        pair(&mut out, format!("lt-oneshot-chunk-outlives-iter-{}", k.name), "borrow-outlives-iterator",
            format!("let c;\n{{ {} c = it.next_chunk(2); }}\nlet _ = c.map(|x| x.values.count());", k.mk),
            &["E0597", "E0505"],
            format!("{} let c = it.next_chunk(2); let _ = c.map(|x| x.values.count());", k.mk));
        // L6b: dropping (moving) the iterator while a one-shot chunk is alive
        pair(&mut out, format!("lt-drop-iter-with-live-chunk-{}", k.name), "borrow-outlives-iterator",
            format!("{} let c = it.next_chunk(2); drop(it); let _ = c.map(|x| x.values.count());", k.mk),
            &["E0505"],
            format!("{} let c = it.next_chunk(2); let _ = c.map(|x| x.values.count()); drop(it);", k.mk));
        // L6c: into_seq_iter while a chunk is alive
        pair(&mut out, format!("lt-into-seq-with-live-chunk-{}", k.name), "borrow-outlives-iterator",
            format!("{} let mut b = it.buffered_iter(2); let c = b.next(); let s = it.into_seq_iter(); drop(c); let _ = s.count();", k.mk),
            &["E0505"],
            format!("{} let mut b = it.buffered_iter(2); let c = b.next(); drop(c); drop(b); let s = it.into_seq_iter(); let _ = s.count();", k.mk));
    }
    // ---- the internal, unreserved pull of the buffered machinery must stay unreachable from safe client code
    const UNREACHABLE: &[&str] = &["E0599", "E0405", "E0412", "E0432", "E0433", "E0603", "E0576", "E0425"];
    let twin_src = "#![forbid(unsafe_code)]\nuse orx_concurrent_iter::*;\nfn two<C: ConcurrentIter>(it: &C) -> (Option<C::Item>, Option<C::Item>) {\n    let mut b1 = it.buffered_iter(1);\n    let a = b1.next().and_then(|mut x| x.values.next());\n    let mut b2 = it.buffered_iter(1);\n    let b = b2.next().and_then(|mut x| x.values.next());\n    (a, b)\n}\nfn main() {\n    let it = vec![String::from(\"x\")].into_con_iter();\n    let (a, b) = two(&it);\n    assert!(a.is_some() && b.is_none());\n}\n";
    out.push(Program { name: "pv-buffered-pull-ok".into(), class: "internal-pull-reachable", src: twin_src.to_string(), expect: Expect::Accept, twin: None });
    for (name, body) in [
        ("projection", "    let mut b1 = C::BufferedIter::new(1);\n    let mut b2 = C::BufferedIter::new(1);\n    let a = b1.pull(it, 0).and_then(|mut x| x.next());\n    let b = b2.pull(it, 0).and_then(|mut x| x.next());\n    (a, b)"),
        ("named-trait", "    let mut b1 = <C::BufferedIter as BufferedChunk<C::Item>>::new(1);\n    let mut b2 = <C::BufferedIter as BufferedChunk<C::Item>>::new(1);\n    let a = BufferedChunk::pull(&mut b1, it, 0).and_then(|mut x| x.next());\n    let b = BufferedChunk::pull(&mut b2, it, 0).and_then(|mut x| x.next());\n    (a, b)"),
        ("module-path", "    use orx_concurrent_iter::iter::buffered::buffered_chunk::BufferedChunk as BC;\n    let mut b1 = <C::BufferedIter as BC<C::Item>>::new(1);\n    let a = BC::pull(&mut b1, it, 0).and_then(|mut x| x.next());\n    let b = BC::pull(&mut b1, it, 0).and_then(|mut x| x.next());\n    (a, b)"),
    ] {
        let src = format!("#![forbid(unsafe_code)]\nuse orx_concurrent_iter::*;\nfn two<C: ConcurrentIter>(it: &C) -> (Option<C::Item>, Option<C::Item>) {{\n{}\n}}\nfn main() {{\n    let it = vec![String::from(\"x\")].into_con_iter();\n    let (a, b) = two(&it);\n    println!(\"{{:?}} {{:?}}\", a, b);\n}}\n", body);
        out.push(Program { name: format!("pv-buffered-pull-{}", name), class: "internal-pull-reachable", src, expect: Expect::Reject(UNREACHABLE), twin: Some("pv-buffered-pull-ok".into()) });
    }
    // L10: iterator over a temporary
    pair(&mut out, "lt-slice-of-temporary".to_string(), "reference-outlives-collection",
        "let it = ConIterOfSlice::new(&vec![1usize, 2][..]); let _ = it.next();".to_string(),
        &["E0716"],
        "let data = vec![1usize, 2]; let it = ConIterOfSlice::new(&data[..]); let _ = it.next();".to_string());
    out
}

/// newest rlib of the crate in the harness's own dependency directory
pub fn find_rlib() -> Option<(PathBuf, PathBuf)> {
    let deps = verif_root().join("harness").join("target").join("release").join("deps");
    let mut best: Option<(std::time::SystemTime, PathBuf)> = None;
    for e in std::fs::read_dir(&deps).ok()?.flatten() {
        let p = e.path();
        let n = p.file_name()?.to_str()?.to_string();
        if n.starts_with("liborx_concurrent_iter-") && n.ends_with(".rlib") {
            let t = e.metadata().ok()?.modified().ok()?;
            if best.as_ref().map_or(true, |b| t > b.0) {
                best = Some((t, p));
            }
        }
    }
    best.map(|b| (b.1, deps))
}

pub fn compile(p: &Program, rlib: &PathBuf, deps: &PathBuf, dir: &PathBuf) -> Compiled {
    let src = dir.join(format!("{}.rs", p.name));
    let _ = std::fs::write(&src, &p.src);
    let out = Command::new("rustc")
        .arg("--edition=2021")
        .arg("--crate-type=bin")
        .arg("--emit=metadata")
        .arg("--error-format=short")
        .arg("-A")
        .arg("warnings")
        .arg("-L")
        .arg(format!("dependency={}", deps.display()))
        .arg("--extern")
        .arg(format!("orx_concurrent_iter={}", rlib.display()))
        .arg("-o")
        .arg(dir.join(format!("{}.rmeta", p.name)))
        .arg(&src)
        .output();
    match out {
        Ok(o) => {
            let err = String::from_utf8_lossy(&o.stderr).to_string();
            let mut codes = vec![];
            for part in err.split("error[").skip(1) {
                if let Some(c) = part.split(']').next() {
                    if !codes.contains(&c.to_string()) {
                        codes.push(c.to_string());
                    }
                }
            }
            Compiled {
                ok: o.status.success(),
                codes,
                first_error: err.lines().find(|l| l.contains("error")).unwrap_or("").chars().take(240).collect(),
            }
        }
        Err(e) => Compiled {
            ok: false,
            codes: vec!["SPAWN".into()],
            first_error: e.to_string(),
        },
    }
}
