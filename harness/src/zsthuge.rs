//! Sources of zero-sized elements with lengths at the boundaries of `usize` (`&[()]` of length
//! `usize::MAX`, `Vec<()>` of the same length): legal, cheap (no memory), and the only sources whose
//! length exceeds `isize::MAX`, so that `position + min(chunk, len)` can overflow although neither
//! term does. Used by C16 (one iterator, all pulling methods, into_seq_iter) and C19 (several
//! iterators and clones over one collection, `Case::sched` as in `multi.rs`).
//!
//! The elements carry no identity and chunks cannot be walked, so this is a self-contained
//! comparison with the mathematical cursor (u128): every result (`Some`/`None`, index, begin,
//! announced length, try_get_len, has_more, length of the remainder) is predicted exactly.

use crate::case::*;
use crate::oracle::Violation;
use orx_concurrent_iter::{ConcurrentIter, ConcurrentIterable, HasMore, IntoConcurrentIter};

static UNITS: [(); usize::MAX] = [(); usize::MAX];

pub const HUGE_LENS: [usize; 7] = [usize::MAX, usize::MAX - 1, usize::MAX - 7, usize::MAX / 2 + 2, usize::MAX / 2 + 1, usize::MAX / 2, 1 << 62];

pub fn is_huge_zst(case: &Case) -> bool {
    case.layout == Layout::Zst && case.len > (1 << 40)
}

#[derive(Clone, Copy)]
struct Model {
    pos: u128,
    len: u128,
}

impl Model {
    fn remaining(&self) -> u128 {
        self.len.saturating_sub(self.pos)
    }
}

fn bad<T>(what: &'static str, detail: String) -> Result<T, Violation> {
    Err(Violation { what, detail })
}

struct Handle<I: ConcurrentIter> {
    it: I,
    m: Model,
}

/// Executes `ops` on one iterator and compares every result with the model.
fn step<I>(h: &Handle<I>, m: &mut Model, j: usize, ops: &[Op]) -> Result<(), Violation>
where
    I: ConcurrentIter,
{
    let it = &h.it;
    // the buffered handle lives for the rest of this step only
    let mut buf = if std::hint::black_box(false) { Some((0usize, it.buffered_iter(1))) } else { None };
    for (k, op) in ops.iter().enumerate() {
        let w = |s: String| format!("iterator #{} op {} {}: {} (model position {}, length {})", j, k, op, s, m.pos, m.len);
        match *op {
            Op::Next | Op::NextIdVal => {
                let expect = m.pos < m.len;
                let (got, idx) = if matches!(op, Op::Next) {
                    (it.next().is_some(), None)
                } else {
                    match it.next_id_and_value() {
                        Some(x) => (true, Some(x.idx)),
                        None => (false, None),
                    }
                };
                if got != expect {
                    return bad("model-mismatch", w(format!("returned {} where the model says {}", if got { "an element" } else { "the end" }, if expect { "an element" } else { "the end" })));
                }
                if let Some(i) = idx {
                    if i as u128 != m.pos {
                        return bad("wrong-index", w(format!("reported index {}", i)));
                    }
                }
                m.pos += 1;
            }
            Op::Chunk { .. } | Op::BufNext { .. } => {
                let (n, res) = match *op {
                    Op::Chunk { n, .. } => (n, it.next_chunk(n).map(|c| (c.begin_idx, c.values.len(), { let mut v = c.values; v.next().is_some() }))),
                    _ => match buf.as_mut() {
                        Some((n, b)) => (*n, b.next().map(|c| (c.begin_idx, c.values.len(), { let mut v = c.values; v.next().is_some() }))),
                        None => continue,
                    },
                };
                if n == 0 {
                    if res.is_some() {
                        return bad("model-mismatch", w("a chunk pull of size 0 delivered something".into()));
                    }
                    continue;
                }
                let avail = m.remaining().min(n as u128);
                match res {
                    None => {
                        if avail > 0 {
                            return bad("model-mismatch", w(format!("reported the end although {} elements remain", m.remaining())));
                        }
                    }
                    Some((begin, len, first)) => {
                        if avail == 0 {
                            return bad("model-mismatch", w(format!("delivered a chunk [{}, +{}) after the end", begin, len)));
                        }
                        if begin as u128 != m.pos || len as u128 != avail {
                            return bad("model-mismatch", w(format!("delivered the chunk [{}, +{}), the model says [{}, +{})", begin, len, m.pos, avail)));
                        }
                        if !first {
                            return bad("empty-chunk", w("the chunk announced a positive length and yielded nothing".into()));
                        }
                    }
                }
                m.pos += n as u128;
            }
            Op::BufNew { n } => {
                if n == 0 {
                    continue; // documented panic: C16's grid
                }
                buf = None;
                buf = Some((n, it.buffered_iter(n)));
            }
            Op::Len => {
                let got = it.try_get_len();
                if got.map(|x| x as u128) != Some(m.remaining()) {
                    return bad("wrong-length", w(format!("try_get_len = {:?}, the model says {}", got, m.remaining())));
                }
            }
            Op::HasMore => {
                let ok = match it.has_more() {
                    HasMore::Yes(x) => x as u128 == m.remaining() && x > 0,
                    HasMore::No => m.remaining() == 0,
                    HasMore::Maybe => false,
                };
                if !ok {
                    return bad("wrong-length", w(format!("has_more disagrees with {} remaining elements", m.remaining())));
                }
            }
            Op::Skip => {
                it.skip_to_end();
                m.pos = m.pos.max(m.len);
            }
            _ => {}
        }
    }
    Ok(())
}

fn drive_multi<I>(case: &Case, new: &dyn Fn() -> I) -> Result<usize, Violation>
where
    I: ConcurrentIter + Clone,
{
    let fresh = Model { pos: 0, len: case.len as u128 };
    let mut hs: Vec<Handle<I>> = vec![];
    for (k, ops) in case.threads.iter().enumerate() {
        let b = case.sched.get(k).copied().unwrap_or(0);
        if hs.is_empty() || (b >= crate::multi::NEW_FROM && b < crate::multi::CLONE_FROM) {
            hs.push(Handle { it: new(), m: fresh });
            if hs.len() > 1 || ops.is_empty() {
                continue;
            }
        } else if b >= crate::multi::CLONE_FROM {
            let j = (b as usize) % hs.len();
            let c = Handle { it: hs[j].it.clone(), m: hs[j].m };
            hs.push(c);
            continue;
        }
        let j = (b as usize) % hs.len();
        let mut m = hs[j].m;
        let r = step(&hs[j], &mut m, j, ops);
        hs[j].m = m;
        r?;
    }
    Ok(hs.len())
}

fn guarded<T>(f: impl FnOnce() -> Result<T, Violation>) -> Result<T, Violation> {
    match std::panic::catch_unwind(std::panic::AssertUnwindSafe(f)) {
        Ok(r) => r,
        Err(p) => bad("panic", format!("an operation panicked: {}", crate::interp::panic_msg(&p))),
    }
}

/// C19: several iterators and clones over one huge collection of zero-sized elements.
pub fn eval_multi(case: &Case) -> (Result<(), Violation>, usize) {
    let r = guarded(|| {
        let s: &[()] = &UNITS[..case.len];
        match case.kind {
            Kind::Slice => drive_multi(case, &|| IntoConcurrentIter::into_con_iter(s)),
            Kind::SliceCon => drive_multi(case, &|| ConcurrentIterable::con_iter(&s)),
            _ => {
                let mut v: Vec<()> = Vec::new();
                // SAFETY: `()` is zero-sized: every length is within the (infinite) capacity and there is nothing to initialise
                unsafe { v.set_len(case.len) };
                let n = drive_multi(case, &|| ConcurrentIterable::con_iter(&v))?;
                if v.len() != case.len {
                    return bad("source-modified", "the length of the collection changed".into());
                }
                Ok(n)
            }
        }
    });
    match r {
        Ok(n) => (Ok(()), n),
        Err(v) => (Err(v), 0),
    }
}

/// C16: one iterator over a huge collection of zero-sized elements, then drop or into_seq_iter.
pub fn eval_single(case: &Case) -> Result<(), Violation> {
    fn run<I: ConcurrentIter>(case: &Case, it: I) -> Result<(), Violation> {
        let h = Handle { it, m: Model { pos: 0, len: case.len as u128 } };
        let mut m = h.m;
        for ops in &case.threads {
            step(&h, &mut m, 0, ops)?;
        }
        if let Terminal::IntoSeq { .. } = case.terminal {
            let mut s = h.it.into_seq_iter();
            let (lo, hi) = s.size_hint();
            let rem = m.remaining();
            // the remainder cannot be walked: its announced size and its first item are compared
            if hi.map_or(false, |x| (x as u128) < rem) || (lo as u128) > rem {
                return bad("model-mismatch", format!("into_seq_iter announces between {} and {:?} items, the model says {}", lo, hi, rem));
            }
            if s.next().is_some() != (rem > 0) {
                return bad("model-mismatch", format!("into_seq_iter {} although the model says {} items remain", if rem > 0 { "is empty" } else { "yields an item" }, rem));
            }
            std::mem::forget(s);
        }
        Ok(())
    }
    guarded(|| {
        let s: &[()] = &UNITS[..case.len];
        match case.kind {
            Kind::Slice => run(case, IntoConcurrentIter::into_con_iter(s)),
            Kind::SliceCon => run(case, ConcurrentIterable::con_iter(&s)),
            Kind::VecRef | Kind::VecOwn => {
                let mut v: Vec<()> = Vec::new();
                // SAFETY: as above
                unsafe { v.set_len(case.len) };
                if case.kind == Kind::VecRef {
                    run(case, ConcurrentIterable::con_iter(&v))
                } else {
                    run(case, IntoConcurrentIter::into_con_iter(v))
                }
            }
            _ => Ok(()),
        }
    })
}

/// Strategy shared by both users: boundary lengths, ops with boundary chunk sizes.
pub fn strategy(multi: bool) -> proptest::strategy::BoxedStrategy<Case> {
    use proptest::prelude::*;
    let kinds: Vec<Kind> = if multi { vec![Kind::Slice, Kind::SliceCon, Kind::VecRef] } else { vec![Kind::Slice, Kind::SliceCon, Kind::VecRef, Kind::VecOwn] };
    let mut cfg = crate::gen::GenCfg::base(&kinds);
    cfg.layouts = vec![Layout::Zst];
    cfg.max_len = 3;
    cfg.min_threads = if multi { 2 } else { 1 };
    cfg.max_threads = if multi { 10 } else { 2 };
    cfg.max_ops = 4;
    cfg.w_len = 3;
    cfg.w_has = 1;
    cfg.w_skip = 1;
    cfg.w_loops = 0;
    cfg.w_drain_elem = 0;
    cfg.w_chunk = 8;
    cfg.w_bufnext = 5;
    cfg.w_bufnew = 3;
    cfg.huge_chunks = true;
    cfg.huge_often = true;
    cfg.large = 0;
    cfg.terminal_mode = if multi { 0 } else { 2 };
    let action = prop_oneof![
        6 => 0u8..crate::multi::NEW_FROM,
        1 => crate::multi::NEW_FROM..crate::multi::CLONE_FROM,
        2 => crate::multi::CLONE_FROM..=255u8,
    ];
    (crate::gen::case_strategy(&cfg), proptest::collection::vec(action, 10), 0usize..HUGE_LENS.len())
        .prop_map(move |(mut c, acts, l)| {
            c.len = HUGE_LENS[l];
            c.layout = Layout::Zst;
            c.sched = if multi { acts[..c.threads.len()].to_vec() } else { vec![] };
            c
        })
        .boxed()
}

fn pulls_with_huge(case: &Case) -> (usize, usize) {
    let mut pulls = 0;
    let mut huge = 0;
    for t in &case.threads {
        for o in t {
            match o {
                Op::Next | Op::NextIdVal | Op::BufNext { .. } => pulls += 1,
                Op::Chunk { n, .. } | Op::BufNew { n } => {
                    pulls += 1;
                    if *n > usize::MAX / 5 {
                        huge += 1;
                    }
                }
                _ => {}
            }
        }
    }
    (pulls, huge)
}

pub fn eval_c19_huge(case: &Case) -> crate::driver::Outcome {
    let (verdict, n_iters) = eval_multi(case);
    let (pulls, huge) = pulls_with_huge(case);
    let clones = case.sched.iter().filter(|b| **b >= crate::multi::CLONE_FROM).count();
    crate::driver::Outcome {
        verdict,
        sig_ctx: "huge-zst".to_string(),
        nontrivial: n_iters >= 2 && pulls >= 2 && clones >= 1,
        classes: vec!["huge-zst", if huge > 0 { "boundary-chunk-size" } else { "ordinary-chunk-sizes" }],
        inconclusive: false,
        evals: 1,
        dfs: None,
        witness: None,
    }
}

pub fn eval_c16_huge(case: &Case) -> crate::driver::Outcome {
    let verdict = eval_single(case);
    let (pulls, huge) = pulls_with_huge(case);
    crate::driver::Outcome {
        verdict,
        sig_ctx: "huge-zst".to_string(),
        nontrivial: pulls >= 2 && huge >= 1,
        classes: vec!["huge-zst", crate::oracle::kind_class(case.kind)],
        inconclusive: false,
        evals: 1,
        dfs: None,
        witness: None,
    }
}
