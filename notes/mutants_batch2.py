MUT = [
 ("M33","src/iter/atomic_counter.rs","""        let update = |current: usize| Some(current.saturating_add(len));
        match self
            .current
            .fetch_update(Ordering::AcqRel, Ordering::Acquire, update)
        {
            Ok(previous) | Err(previous) => previous,
        }""","""        let previous = self.current.load(Ordering::Acquire);
        self.current
            .store(previous.saturating_add(len), Ordering::Release);
        previous""","C01/C04 non-atomic reservation (lost update)"),
 ("M34","src/iter/copied.rs","begin_idx: x.begin_idx,","begin_idx: x.begin_idx + 1,","C02/C13 copied chunk index off by one"),
 ("M38","src/iter/implementors/array.rs","(left_len..N).map(|i| ptr.add(i).read()).collect()","(left_len + 1..N).map(|i| ptr.add(i).read()).collect()","C08/C10 array remainder misses/leaks one"),
 ("M40","src/iter/copied.rs","""    fn early_exit(&self) {
        self.iter.early_exit()
    }""","""    fn early_exit(&self) {}""","C13/C06 copied skip not forwarded"),
 ("M42","src/iter/buffered/iter.rs","""        let guard = iter.complete_on_unwind();
        let mut i = 0;""","""        let guard = iter.complete_on_unwind();
        std::mem::forget(guard);
        let guard = ();
        let mut i = 0;""","C18 hang when a buffered pull panics"),
 ("M44","src/iter/implementors/vec.rs","            ManuallyDrop::drop(vec);\n","","C15 buffer leak (D4 reintroduced)"),
 ("M45","src/iter/implementors/slice.rs","""        let end_idx = begin_idx
            .saturating_add(n)""","""        let end_idx = begin_idx
            .wrapping_add(n)""","C16 huge chunk after one pull returns None / loses elements"),
 ("M46","src/iter/implementors/array.rs","super::taken_slice::TakenSlice::new(ptr, len)","Vec::from_raw_parts(ptr, len, 0).into_iter()","C17 std precondition (D2 reintroduced on arrays)"),
 ("M47","src/iter/atomic_counter.rs","""        let update = |current: usize| Some(current.saturating_add(len));""","""        static LOCK: std::sync::atomic::AtomicBool = std::sync::atomic::AtomicBool::new(false);
        while LOCK.swap(true, Ordering::Acquire) {}
        struct Unlock;
        impl Drop for Unlock {
            fn drop(&mut self) {
                LOCK.store(false, Ordering::Release);
            }
        }
        let _unlock = Unlock;
        let update = |current: usize| Some(current.saturating_add(len));""","C09 lock-freedom lost (global spin lock around the counter)"),
 ("M49","src/iter/implementors/slice.rs","""        let begin_idx = self.counter().fetch_and_add(number_to_fetch);
        match begin_idx.cmp(&self.initial_len()) {""","""        let begin_idx = self.counter().current();
        self.counter().fetch_and_add(number_to_fetch);
        match begin_idx.cmp(&self.initial_len()) {""","C01/C04 slice chunk reservation read-then-add"),
 ("M51","src/iter/buffered/range.rs","let begin_value = begin_idx + range.start.into();","let begin_value = begin_idx;","C02 buffered range with start>0 yields wrong values"),
 ("M52","src/iter/buffered/vec.rs","Some(unsafe { iter.take_slice(begin_idx, self.chunk_size) })","Some(unsafe { iter.take_slice(begin_idx, self.chunk_size - 1) })","C03/C08 buffered vec chunk short / empty; elements leaked"),
 ("M54","src/iter/implementors/vec.rs","let remaining_vec = unsafe { self.split_off_right(current.min(self.vec_len)) };","let remaining_vec = unsafe { self.split_off_right(current) };","C10 panic on overshoot"),
 ("M56","src/iter/implementors/iter.rs","""                        true => {
                            _ = self.yielded_counter.fetch_and_increment();
                        }
                        false => self.completed.store(true, atomic::Ordering::SeqCst),""","""                        true => {
                            _ = self.yielded_counter.fetch_and_increment();
                        }
                        false => {
                            _ = self.yielded_counter.fetch_and_increment();
                        }""","C11 has_more never No after the end (single pull); C05 still holds for fused iterators"),
 ("M57","src/iter/default_fns/for_each.rs","""        _ => {
            let mut buffered_iter = iter.buffered_iter(chunk_size);
            while let Some(chunk) = buffered_iter.next() {
                chunk.values.for_each(&mut f);
            }
        }""","""        _ => {
            let mut buffered_iter = iter.buffered_iter(chunk_size);
            while let Some(chunk) = buffered_iter.next() {
                let short = chunk.values.len() < chunk_size;
                chunk.values.for_each(&mut f);
                if short {
                    break;
                }
            }
        }""","HARMLESS? early exit after a short chunk: iterator is not 'exhausted' for wrapped iterators of unknown size? (short chunk => source ended) - expect green except C12 'returns with the iterator exhausted' must still hold"),
 ("M58","src/iter/implementors/range.rs","""        self.counter().store(self.range.end.into())""","""        self.counter().store(self.initial_len().saturating_sub(1))""","C06 range: one delivery after skip"),
]
