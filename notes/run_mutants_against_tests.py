import subprocess, sys, os, re, json
sys.path.insert(0,'/tmp/scratch')
from mutants import MUT
os.chdir('/tmp/scratch/repo')
env=dict(os.environ, CARGO_NET_OFFLINE='true')
base=set(json.load(open('/root/.vp/BASELINE.json'))['stable_pass'])
res=[]
for mid,f,old,new,why in MUT:
    s=open(f).read()
    if old not in s:
        res.append((mid,'NOT-APPLICABLE',why)); print(mid,'pattern not found'); continue
    open(f,'w').write(s.replace(old,new,1))
    b=subprocess.run(['cargo','test','--workspace','--no-run','--offline'],env=env,capture_output=True,text=True)
    if b.returncode!=0:
        st='COMPILE-FAIL: '+(re.findall(r'^error.*$',b.stderr,re.M) or ['?'])[0]
    else:
        r=subprocess.run(['cargo','nextest','run','--workspace','--no-fail-fast','--offline','--test-threads','16','--tool-config-file','pb:/tmp/scratch/nt.toml','--profile','pb'],env=env,capture_output=True,text=True,timeout=900)
        out=r.stdout+r.stderr
        m=re.search(r'(\d+) tests run: (\d+) passed(?:, (\d+) failed)?',out)
        failed=re.findall(r'^\s+(?:FAIL|SIGABRT|TIMEOUT|SIGSEGV|ABORT|TERMINATING)\s+\[.*?\]\s+\(.*?\)\s+(\S+) (\S+)',out,re.M)
        names=set(a+'::'+b_ for a,b_ in failed)
        # baseline names look like orx-concurrent-iter::vec::debug
        bl=[n for n in names if n in base]
        st=f"tests: {m.group(0) if m else 'no summary'}; failing-in-pinned-baseline={len(bl)} {sorted(bl)[:3]}"
    res.append((mid,st,why)); print(mid,st,'|',why,flush=True)
    subprocess.run(['git','checkout','-q','--','.'])
json.dump(res,open('/tmp/scratch/mutant_results.json','w'),indent=1)
