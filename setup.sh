#!/bin/bash
# Builds the framework from files on disk only (offline). Run once after a fresh restore.
set -e
cd "$(dirname "$0")"
export CARGO_NET_OFFLINE=true
H="$(pwd)/harness"
RUSTFLAGS="--cfg orx_concurrent_iter_verif" cargo build --release --manifest-path "$H/Cargo.toml" --target-dir "$H/target-sched" 2>&1 | tail -2
cargo build --release --manifest-path "$H/Cargo.toml" --target-dir "$H/target" 2>&1 | tail -2
cargo build --profile twin-dbg --manifest-path "$H/Cargo.toml" --target-dir "$H/target" 2>&1 | tail -1
cargo build --profile twin-rel --manifest-path "$H/Cargo.toml" --target-dir "$H/target" 2>&1 | tail -1
(cd "$H" && RUSTFLAGS="-Zsanitizer=thread" cargo +nightly build -Zbuild-std --target x86_64-unknown-linux-gnu --release --target-dir "$H/target-tsan" 2>&1 | tail -1) || echo "note: ThreadSanitizer build failed; C07's real-thread stage will be skipped"
echo "setup done"
