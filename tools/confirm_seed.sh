#!/bin/bash
# Confirm a sub-agent's seeded change independently of the agent:
#   tools/confirm_seed.sh <agent-worktree> <out-dir>
# Takes <agent-worktree>/seed/{patch.diff,demo.rs}, applies the patch to a FRESH worktree of /repo's HEAD,
# runs the pinned suite and the doc tests with the change, then the demonstration with and without it.
# Writes <out-dir>/verify.txt and copies patch.diff / demo.rs / NOTES.md into <out-dir>.
set -u
src=$1; out=$2
mkdir -p "$out"
cp "$src/seed/patch.diff" "$out/patch.diff"
[ -f "$src/seed/demo.rs" ] && cp "$src/seed/demo.rs" "$out/demo.rs"
[ -f "$src/seed/demo.md" ] && cp "$src/seed/demo.md" "$out/demo.md"
[ -f "$src/seed/NOTES.md" ] && cp "$src/seed/NOTES.md" "$out/NOTES.md"
wt=$(mktemp -d /tmp/confirm.XXXXXX)
git -C /repo worktree add --detach "$wt/r" HEAD >/dev/null 2>&1
cd "$wt/r" || exit 2
{
  if git apply "$out/patch.diff"; then echo "patch_applies=true"; else echo "patch_applies=false"; fi
  echo "files_changed=$(git status --porcelain | tr '\n' ' ')"
  echo "suite_with_change=$(cargo nextest run --workspace --no-fail-fast --offline 2>&1 | grep -E '^\s*Summary' | tail -1)"
  echo "doctests_with_change=$(cargo test --doc --offline 2>&1 | grep -E '^test result' | tail -1)"
  echo "verif_cfg_builds=$(RUSTFLAGS='--cfg orx_concurrent_iter_verif' cargo build --offline --target-dir target/verif 2>&1 | tail -1)"
  if [ -f "$out/demo.rs" ]; then
    cp "$out/demo.rs" tests/zz_demo.rs
    echo "demo_with_change=$(cargo test --offline ${DEMO_FLAGS:-} --test zz_demo 2>&1 | grep -E '^test result|^error: test failed' | tail -1)"
    git apply -R "$out/patch.diff"
    echo "demo_without_change=$(cargo test --offline ${DEMO_FLAGS:-} --test zz_demo 2>&1 | grep -E '^test result|^error: test failed' | tail -1)"
  fi
} > "$out/verify.txt" 2>&1
cd /
git -C /repo worktree remove --force "$wt/r"; rm -rf "$wt"; git -C /repo worktree prune
cat "$out/verify.txt"
