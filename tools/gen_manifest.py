#!/usr/bin/env python3
"""Generates /verif/MANIFEST.json from the table below and validates it against the schema."""
import json, sys, os
ROOT = os.path.dirname(os.path.dirname(os.path.abspath(__file__)))

E1 = "E1 schedule engine (harness/src/sched.rs, guard on)"
E2 = "E2 sequential lock-step engine (harness/src/seq.rs)"

TRUST = ("Trusted base: the harness (scheduler, shim, oracles, generators) and rustc; assumes sequentially consistent "
         "values of atomics (only happens-before follows the orderings in the source), yield points at atomic accesses / "
         "probe next / clone / closures, fused wrapped iterators with truthful size hints. Absence is never established: "
         "evidence reports how many distinct non-trivial cases were explored.")
TRUST_SEQ = ("Trusted base: the harness (reference model, identity ledger, generators) and rustc. Sequential or "
             "concurrent-then-joined histories only. Absence is never established.")

CHECKS = {
 # id: (implemented, engine, category, technique, level text, design ref, note)
 "C01": (True, "sched", "exploration", "property-based testing over generated schedules (proptest + deterministic coroutine scheduler), exactly-once oracle; bounded-preemption schedule enumeration for small programs",
         "Generated concurrent histories (1-4 virtual threads, all source kinds, all pulling methods) under generated and, for small programs, exhaustively enumerated (<=2 preemptions) schedules; multiset oracle over delivered positions.", "DESIGN §4 C01", TRUST),
 "C02": (True, "sched", "exploration", "property-based testing over generated schedules and sequential histories, index/value/identity/address oracle",
         "Every (index, element) pair returned under generated schedules is compared with the source at that index; distinct random contents so a wrong index cannot hide.", "DESIGN §4 C02", TRUST),
 "C03": (True, "sched", "exploration", "property-based testing (E1 schedules + E2 sequential), chunk-contract oracle",
         "Chunk-dense histories with partial consumption, generated sizes around the remaining length; validity predicate over every returned chunk.", "DESIGN §4 C03", TRUST),
 "C04": (True, "sched", "exploration", "property-based testing with a Wing-Gong linearizability search against the one-cursor reference model; bounded-preemption schedule enumeration for small programs",
         "Recorded call/return steps of every elementary pull and skip are searched for a linearization accepted by the sequential-cursor model; cheap order invariants in addition; sequential histories compared step by step.", "DESIGN §4 C04", TRUST),
 "C05": (True, "sched", "exploration", "property-based testing (E1 + E2) of histories continuing past the end, permanence oracle",
         "Histories drain and continue with up to 200 pulls; oracle over real-time order of end reports and later calls.", "DESIGN §4 C05", TRUST),
 "C06": (True, "sched", "exploration", "property-based testing (E1 + E2) of histories with skip_to_end, real-time oracle + duplicate/order/index oracles; schedule enumeration for small programs",
         "Skips at arbitrary points, concurrent with pulls and each other, followed by further pulls.", "DESIGN §4 C06", TRUST),
 "C07": (True, "sched+plain", "exploration", "property-based testing over generated schedules with a vector-clock happens-before oracle (C11 release/acquire rules from the orderings in the source) and a mutual-exclusion probe; plus generated real-thread programs executed under ThreadSanitizer",
         "The wrapped iterator is a harness probe; every execution of its next is checked for overlap and for a happens-before edge from the previous execution.", "DESIGN §4 C07", TRUST + " A source scan for synchronisation the shim cannot see switches the happens-before oracle off (reported in the evidence) instead of raising a false race."),
 "C08": (True, "plain+sched", "exploration", "property-based testing with an identity ledger (destructor counting per element)",
         "Consuming kinds with destructor-counting elements (24-byte and zero-sized); histories ending in drop or into_seq_iter at every progress class; each element must be dropped exactly once and have at most one owner.", "DESIGN §4 C08", TRUST_SEQ),
 "C09": (True, "sched", "exploration", "property-based testing over generated schedules with a logical spin/hang detector and thread freezing (adversarial scheduler) for known-size kinds",
         "Hang = reachable state in which every unfinished thread spins on unchanged memory (confirmed); lock-freedom = one thread suspended forever at a generated yield point, the others must finish without any spin episode; threads also stop pulling by injected panics (wrapped iterator, closure, destructor of an element left in a chunk buffer).", "DESIGN §4 C09", TRUST + " Liveness is decided on the explored schedules only."),
 "C10": (True, "plain+sched", "exploration", "property-based testing, model-based remainder oracle",
         "All kinds, histories incl. overshoot / buffered / skip, then into_seq_iter; remainder compared with the undelivered suffix by value, identity and address.", "DESIGN §4 C10", TRUST_SEQ),
 "C11": (True, "sched", "exploration", "property-based testing: model-based length oracle at every quiescent point (E2) and real-time monotonicity/definitiveness oracle for racing queries (E1)",
         "try_get_len/has_more compared with the cursor model after every sequential prefix; racing queries checked for non-increase and for 'No is definitive'; nested iterators (inner.values().into_con_iter() with side pulls on the inner iterator) queried at the final quiescent point and drained.", "DESIGN §4 C11", TRUST),
 "C12": (True, "sched", "exploration", "property-based testing over generated schedules, per-element invocation multiset + fold homomorphism oracle",
         "Threads with different chunk sizes (1 and >1) call for_each/enumerate_for_each/fold; closure invocations recorded per element.", "DESIGN §4 C12", TRUST),
 "C18": (True, "sched", "fault_enumeration", "fault injection (panic at the k-th probe next / clone / closure invocation) under generated schedules, hang + duplicate + ledger oracles",
         "Crash point k enumerated over 0..len+1 by the generator for three fault sites, under generated schedules.", "DESIGN §4 C18", TRUST),
 "C15": (True, "plain+sched", "exploration", "property-based testing with a gated counting global allocator (allocation-balance oracle): sequential, after real-thread concurrent use, and under generated schedules on the schedule engine",
         "Whole cases (construction, operations, terminal, dropping everything) run inside a per-thread allocation gate, twice; balance of bytes and blocks must be exactly zero.", "DESIGN §4 C15", TRUST_SEQ + " Only allocations through the global allocator are visible."),
 "C16": (True, "plain+sched", "exploration", "exhaustive enumeration of the boundary grid plus generated neighbours, u128 reference-model oracle, differential execution in both overflow modes; generated collections of zero-sized elements with lengths up to usize::MAX; property-based testing over generated schedules with racing boundary chunk sizes (usize::MAX / k)",
         "The quantifier's grid (extreme ranges x chunk sizes x tails) is enumerated completely and judged by the mathematical cursor model in-process and in two separately compiled processes (overflow checks on/off); slices / vectors of () longer than isize::MAX; on the schedule engine 2-4 threads pull chunks of sizes MAX, MAX/2, MAX/3, MAX/4, 2^62 concurrently (one-cursor model in u128).", "DESIGN §4 C16", TRUST),
 "C17": (True, "plain", "exploration", "differential testing of two compilations (debug-assertions+overflow-checks on/off) over generated histories; std ub_checks as precondition oracle",
         "The same generated histories are executed by twin processes built from the same sources; transcripts must be identical; an abort in one twin is a violation.", "DESIGN §4 C17", TRUST_SEQ),
 "C13": (True, "plain+sched", "exploration", "differential (lock-step) property-based testing: adaptor vs underlying iterator under the same generated operation lists (E2) and the same generated schedules (E1)",
         "cloned()/copied() over every reference-yielding kind are compared operation by operation with the underlying iterator built over the same data; sequentially and, on the schedule engine, thread by thread under identical schedules.", "DESIGN §4 C13", TRUST),
 "C14": (True, "plain", "exploration", "generated client programs judged by rustc (negative programs paired with compiling twins) + property-based testing of safe low-level call sequences with an identity ledger",
         "A finite grammar of programs (constructors x element types x usages, borrow probes, user-defined AtomicIter implementors behind the adaptors) is compiled against the crate; rejection with the expected error class is the oracle. Sequences of safe public calls are searched for two owners of one element.", "DESIGN §4 C14", "Trusted base: rustc's verdict, the program grammar and the reference rule derived from the property text; a finite family of programs, not all safe programs. Two known findings (D9, D10) are reported as KNOWN-FINDING and excluded by construction."),
 "C19": (True, "plain", "exploration", "model-based property-based testing with several iterators and clones over one collection (one cursor model per iterator, address identity, source ledger)",
         "Interleaved histories of new-iterator / clone / pull / skip / query operations over slices, Vecs, arrays and ranges; the same over &[()] / &Vec<()> of lengths up to usize::MAX.", "DESIGN §4 C19", TRUST_SEQ),
}

NOT_YET = {
}

def main():
    over = {}
    p = os.path.join(ROOT, "tools", "manifest_overrides.json")
    if os.path.exists(p):
        over = json.load(open(p))
    checks = []
    for pid, (impl, flavour, cat, tech, text, ref, note) in sorted(CHECKS.items()):
        if not impl:
            continue
        checks.append({
            "property_id": pid,
            "quick_cmd": f"./check {pid} quick",
            "thorough_cmd": f"./check {pid} thorough",
            "evidence_file": f"/verif/evidence/{pid}.json",
            "replay_cmd_template": f"./check {pid} --replay {{path}}",
            "engine": flavour,
            "level_claimed": {"category": cat, "text": text, "design_ref": ref},
            "level_note": note,
            "technique": tech,
        })
    claimed = {c["property_id"] for c in checks}
    na = [{"property_id": k, "reason": v} for k, v in sorted(NOT_YET.items()) if k not in claimed]
    hook_commits = over.get("hook_commits", [])
    m = {
        "version": 1,
        "setup_cmd": "./setup.sh",
        "hooks": {
            "guard": "orx_concurrent_iter_verif",
            "enable": "RUSTFLAGS=\"--cfg orx_concurrent_iter_verif\" (only the schedule-engine build in harness/target-sched; every other engine builds /repo with the guard off)",
            "baseline_off_cmd": "cd /repo && cargo nextest run --workspace --no-fail-fast --tool-config-file pb:/w/lib/nextest.toml --profile pb --test-threads 8 --offline",
            "source_commits": hook_commits,
            "add_only": True,
        },
        "engines": [
            {"name": "sched", "path": "harness/src/sched.rs", "serves_properties": sorted(k for k, v in CHECKS.items() if v[0] and "sched" in v[1]),
             "kind_free_text": "E1: deterministic coroutine scheduler over the atomic shim (guard on); generated and enumerated schedules, vector clocks, spin/hang detection, freezing, fault injection; also hosts the sequential parts of its properties"},
            {"name": "plain", "path": "harness/src/seq.rs", "serves_properties": sorted(k for k, v in CHECKS.items() if v[0] and "plain" in v[1]),
             "kind_free_text": "E2/E3: sequential lock-step interpreter against the cursor model with identity ledger (guard off: the crate exactly as users compile it)"},
        ],
        "checks": checks,
        "not_applicable": na,
        "notes": "One entry point: ./check <ID> quick|thorough|--replay <file>. Exit 0 held / 1 VIOLATION / 2 inconclusive. VERIF_SEED, VERIF_TIER honoured; VERIF_SCALE scales case counts; all scratch output under /verif/harness/target*.",
    }
    out = os.path.join(ROOT, "MANIFEST.json")
    json.dump(m, open(out, "w"), indent=1)
    try:
        import jsonschema
        jsonschema.validate(m, json.load(open("/root/.vp/MANIFEST.schema.json")))
        print("MANIFEST.json valid;", len(checks), "checks,", len(na), "not_applicable")
    except ImportError:
        print("jsonschema not available; written without validation")

main()
