#!/usr/bin/env python3
"""False-alarm test: apply a behaviour-preserving patch (harmless/<id>/patch.diff) to /repo, run EVERY check's
quick tier, undo. Any exit 1 is a false alarm of the machinery (or the patch is not harmless after all).
usage: tools/harmless_run.py <id> [--scale 0.5] [--checks C01,C02]"""
import json, os, subprocess, sys, time
ROOT = os.path.dirname(os.path.dirname(os.path.abspath(__file__)))
def sh(c): return subprocess.run(c, shell=True, capture_output=True, text=True)
args = sys.argv[1:]
scale = "0.5"
if "--scale" in args:
    i = args.index("--scale"); scale = args[i+1]; del args[i:i+2]
checks = [f"C{i:02d}" for i in range(1, 20)]
if "--checks" in args:
    i = args.index("--checks"); checks = args[i+1].split(","); del args[i:i+2]
hid = args[0]
if sh("git -C /repo status --porcelain").stdout.strip():
    print("refusing: /repo has uncommitted changes"); sys.exit(2)
patch = os.path.join(ROOT, "harmless", hid, "patch.diff")
r = sh(f"git -C /repo apply {patch}")
if r.returncode != 0:
    print("patch does not apply:", r.stderr); sys.exit(2)
res = {}
try:
    for c in checks:
        t0 = time.time()
        env = dict(os.environ, VERIF_SCALE=scale)
        p = subprocess.run([os.path.join(ROOT, "check"), c, "quick"], capture_output=True, text=True, env=env, cwd=ROOT)
        first = [l for l in p.stdout.splitlines() if l.startswith("violation [") or l.startswith("INCONCLUSIVE")]
        res[c] = {"exit": p.returncode, "wall_s": round(time.time()-t0, 1), "first": (first[0][:400] if first else "")}
        if p.returncode != 0:
            mc = [l for l in p.stdout.splitlines() if l.startswith("minimal case")]
            res[c]["case"] = mc[0][:600] if mc else ""
            print(f"{hid} vs {c}: exit {p.returncode}  {res[c]['first']}\n    {res[c].get('case','')}", flush=True)
finally:
    sh("git -C /repo checkout -- . && git -C /repo clean -fdq src")
    sh(f"rm -f {ROOT}/replays/*/found-*.json {ROOT}/replays/*/found-*.rs {ROOT}/replays/*/hung-*.json")
bad = [c for c, v in res.items() if v["exit"] != 0]
print(f"{hid}: {'silent on all ' + str(len(res)) + ' checks' if not bad else 'NON-SILENT: ' + ','.join(bad)}", flush=True)
out = os.path.join(ROOT, "notes", "harmless_results.json")
allr = json.load(open(out)) if os.path.exists(out) else {}
allr[hid] = res
json.dump(allr, open(out, "w"), indent=1)
