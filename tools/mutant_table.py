#!/usr/bin/env python3
"""Renders notes/mutant_results.json as notes/mutant_results.md."""
import json, os, subprocess
ROOT = os.path.dirname(os.path.dirname(os.path.abspath(__file__)))
res = json.load(open(os.path.join(ROOT, "notes", "mutant_results.json")))
lst = subprocess.run(["python3", os.path.join(ROOT, "tools", "mutants.py"), "--list"], capture_output=True, text=True).stdout
desc = {}
for l in lst.splitlines():
    p = l.split()
    if p and p[0].startswith("M"):
        desc[p[0]] = p[1]
rows = ["# Mutant sensitivity run (tools/mutants.py, quarter of the quick budget)", "",
        "| mutant | file | expected | result | per check (exit, seconds) |", "|---|---|---|---|---|"]
surv = fa = 0
for k in sorted(res, key=lambda x: (len(x), x)):
    v = res[k]
    if "checks" not in v:
        rows.append(f"| {k} | {desc.get(k,'')} | | {v.get('status')} | |"); continue
    killed = [c for c, r in v["checks"].items() if r["exit"] == 1]
    inconc = [c for c, r in v["checks"].items() if r["exit"] == 2]
    if v.get("harmless"):
        result = "silent (harmless edit)" if not killed else "**FALSE ALARM** " + ",".join(killed); fa += bool(killed)
    else:
        result = ("killed by " + ", ".join(killed)) if killed else "**SURVIVED**"; surv += (not killed)
        missed = [c for c in v["checks"] if c not in killed]
        if killed and missed: result += " (not by " + ", ".join(missed) + ")"
    if inconc: result += " (inconclusive: " + ",".join(inconc) + ")"
    per = " ".join(f"{c}={r['exit']}({r['wall_s']}s)" for c, r in v["checks"].items())
    rows.append(f"| {k} | {desc.get(k,'')} | {', '.join(v.get('expect', []))}{' H' if v.get('harmless') else ''} | {result} | {per} |")
rows += ["", f"survivors: {surv}; false alarms on harmless edits: {fa}"]
open(os.path.join(ROOT, "notes", "mutant_results.md"), "w").write("\n".join(rows) + "\n")
print("\n".join(rows[-3:]))
