#!/usr/bin/env python3
"""Sensitivity runs: apply a catalogued edit to /repo's working tree, run the owning checks, undo the edit.

usage: tools/mutants.py [--scale 0.25] [--only M02,M07] [--list]
Each mutant is (id, file, old, new, [checks that must report a VIOLATION], harmless?).
Results are written to /verif/notes/mutant_results.json (notes only, not evidence).
The edit is never committed; /repo is restored with `git checkout -- .` after every mutant.
"""
import json, os, subprocess, sys, time

REPO = "/repo"
ROOT = os.path.dirname(os.path.dirname(os.path.abspath(__file__)))
S = "src/iter/"

M = []
def m(id, file, old, new, kills, harmless=False, count=1):
    M.append(dict(id=id, file=file, old=old, new=new, kills=kills, harmless=harmless, count=count))

# ---- batch 1 -------------------------------------------------------------------------------------
m("M01", S+"atomic_iter.rs", "let idx = self.counter().fetch_and_increment();", "let idx = self.counter().fetch_and_add(2);", ["C01"])
m("M02", S+"implementors/vec.rs", "            Ordering::Less => Some(begin_idx),\n            _ => None,", "            Ordering::Greater => None,\n            _ => Some(begin_idx),", ["C03"])
m("M03", S+"implementors/slice.rs", "            .min(self.initial_len())\n            .max(begin_idx);", "            .min(self.initial_len());", ["C01", "C03", "C16"], harmless=True)
m("M04", S+"implementors/iter.rs", "                        false => self.completed.store(true, atomic::Ordering::SeqCst),", "                        false => {}", ["C09", "C11"])
m("M05", S+"implementors/iter.rs", "                    let values = buffer.into_iter();\n                    let older_count = self.progress_yielded_counter(n);", "                    let older_count = self.progress_yielded_counter(buffer.len());\n                    let values = buffer.into_iter();", ["C09"])
m("M06", S+"buffered/iter.rs", "let older_count = iter.progress_yielded_counter(self.chunk_size());", "let older_count = iter.progress_yielded_counter(i.max(1));", ["C09"])
# M07 was harmful on the pinned tree; since the repair of D6/D7 (saturated counter => later pulls end, try_get_len == Some(0))
# dropping the flag only delays waiting pulls, which may legally still deliver: no listed property is violated any more
m("M07", S+"implementors/iter.rs", "        self.counter().store(usize::MAX);\n        self.completed.store(true, atomic::Ordering::SeqCst);", "        self.counter().store(usize::MAX);", ["C06", "C09", "C11", "C05"], harmless=True)
m("M08", S+"atomic_counter.rs", ".fetch_update(Ordering::AcqRel, Ordering::Acquire, update)", ".fetch_update(Ordering::Relaxed, Ordering::Relaxed, update)", ["C07"])
m("M09", S+"atomic_counter.rs", "self.current.load(Ordering::Acquire)", "self.current.load(Ordering::Relaxed)", ["C07"])
m("M10", S+"implementors/vec.rs", "let begin = current.min(self.skipped_from.current()).min(len);", "let begin = (current + 1).min(self.skipped_from.current()).min(len);", ["C08", "C15"])
m("M11", S+"implementors/vec.rs", "let end_idx = begin_idx.saturating_add(len).min(vec.len());", "let end_idx = begin_idx.saturating_add(len).min(vec.len() + 1);", ["C03", "C08"])
m("M12", S+"implementors/vec.rs", "let remaining_vec = unsafe { self.split_off_right(current.min(self.vec_len)) };", "let remaining_vec = unsafe { self.split_off_right(current.min(self.vec_len).saturating_sub(1)) };", ["C10", "C08"])
m("M13", S+"cloned.rs", "self.iter.fetch_n(n).map(|x| NextChunk {", "self.iter.fetch_n(n + 1).map(|x| NextChunk {", ["C13", "C03"])
m("M14", S+"cloned.rs", "    fn early_exit(&self) {\n        self.iter.early_exit()\n    }", "    fn early_exit(&self) {}", ["C13", "C06"])
m("M15", S+"copied.rs", "    fn try_get_len(&self) -> Option<usize> {\n        self.iter.try_get_len()\n    }", "    fn try_get_len(&self) -> Option<usize> {\n        self.iter.try_get_len().map(|x| x + 1)\n    }", ["C13", "C11"])
m("M16", S+"implementors/range.rs", "Some(value) if value < end => Some(value.into()),", "Some(value) if value <= end => Some(value.into()),", ["C01", "C02", "C16"])
m("M17", S+"implementors/range.rs", "        end.saturating_sub(start)", "        end.wrapping_sub(start)", ["C16"])
m("M18", S+"default_fns/for_each.rs", "f(begin_idx + i, value);", "f(begin_idx + i + 1, value);", ["C12", "C02"])
m("M19", S+"default_fns/fold.rs", "        1 => {\n            while let Some(value) = iter.next() {", "        1 => {\n            let _ = iter.next();\n            while let Some(value) = iter.next() {", ["C12"])
m("M20", S+"buffered/iter.rs", "        self.initial_len - self.current_idx", "        self.values.len() - self.current_idx", ["C03"])
m("M21", S+"buffered/iter.rs", "            _ => {\n                let iter = BufferedIter {\n                    values: &mut self.values,\n                    initial_len: i,", "            _ => {\n                let n = self.values.len();\n                let iter = BufferedIter {\n                    values: &mut self.values,\n                    initial_len: n,", ["C03", "C01"])
m("M22", S+"implementors/slice.rs", "            slice: self.slice,\n            counter: self.counter.clone(),", "            slice: self.slice,\n            counter: AtomicCounter::new(),", ["C19"])
m("M23", S+"con_iter.rs", "            Some(0) => HasMore::No,", "            Some(0) | Some(1) => HasMore::No,", ["C11"])
m("M24", S+"implementors/iter.rs", "match self.completed.load(atomic::Ordering::SeqCst) || current == usize::MAX {", "match false {", ["C11", "C06"])
m("M25", S+"implementors/array.rs", "let first_skipped = self.counter().fetch_and_add(N);", "let first_skipped = self.counter().fetch_and_add(N.saturating_sub(1));", ["C06"])
m("M26", S+"implementors/iter.rs", "            (lower, Some(upper)) if lower == upper => Some(lower),", "            (lower, Some(_)) => Some(lower),", ["C11"])
m("M27", S+"implementors/iter.rs", "                // begin_idx==yielded_count => it is our job to provide the items\n                Ordering::Equal => return Some(begin_idx),", "                Ordering::Equal | Ordering::Greater => return Some(begin_idx),", ["C07", "C02", "C04"])
m("M28", S+"implementors/slice.rs", "self.slice.iter().skip(current)", "self.slice.iter().skip(current + 1)", ["C10"])
m("M29", S+"implementors/iter.rs", "                .collect::<Vec<_>>();\n            std::mem::forget(guard);", "                .collect::<Vec<_>>();\n            drop(guard);", ["C01", "C05"])
m("M30", S+"implementors/slice.rs", "self.counter().store(self.slice.len())", "self.counter().store(self.slice.len().saturating_sub(1))", ["C06"])
m("M31", S+"wrappers/ids_and_values.rs", "self.con_iter.next_id_and_value().map(|x| (x.idx, x.value))", "self.con_iter.next_id_and_value().map(|x| (x.idx + 0, x.value))", ["C02", "C01"], harmless=True)
m("M32", S+"implementors/vec.rs", "        if first_skipped < self.vec_len {\n            self.skipped_from.store(first_skipped);\n        }", "        let _ = first_skipped;", ["C08", "C15"])
# ---- batch 2 -------------------------------------------------------------------------------------
m("M33", S+"atomic_counter.rs", "        let update = |current: usize| Some(current.saturating_add(len));\n        match self\n            .current\n            .fetch_update(Ordering::AcqRel, Ordering::Acquire, update)\n        {\n            Ok(previous) | Err(previous) => previous,\n        }", "        let previous = self.current.load(Ordering::Acquire);\n        self.current.store(previous.saturating_add(len), Ordering::Release);\n        previous", ["C01", "C04"])
m("M34", S+"copied.rs", "            begin_idx: x.begin_idx,\n            values: x.values.copied(),", "            begin_idx: x.begin_idx + 1,\n            values: x.values.copied(),", ["C02", "C13"])
m("M38", S+"implementors/array.rs", "(left_len..N).map(|i| ptr.add(i).read()).collect()", "(left_len + 1..N).map(|i| ptr.add(i).read()).collect()", ["C08", "C10"])
m("M40", S+"copied.rs", "    fn early_exit(&self) {\n        self.iter.early_exit()\n    }", "    fn early_exit(&self) {}", ["C13", "C06"])
m("M42", S+"buffered/iter.rs", "        let guard = iter.complete_on_unwind();\n        let mut i = 0;", "        let guard = iter.complete_on_unwind();\n        std::mem::forget(guard);\n        let guard = ();\n        let mut i = 0;", ["C18"])
m("M44", S+"implementors/vec.rs", "            ManuallyDrop::drop(vec);\n", "", ["C15"])
m("M45", S+"implementors/slice.rs", "        let end_idx = begin_idx\n            .saturating_add(n)", "        let end_idx = begin_idx\n            .wrapping_add(n)", ["C16"])
m("M46", S+"implementors/array.rs", "        super::taken_slice::TakenSlice::new(ptr, len)", "        Vec::from_raw_parts(ptr, len, 0).into_iter()", ["C17"])
m("M47b", S+"atomic_counter.rs", "    pub fn fetch_and_add(&self, len: usize) -> usize {\n", "    pub fn fetch_and_add(&self, len: usize) -> usize {\n        static LOCK: crate::verif_lock::Lock = crate::verif_lock::Lock::new();\n        let _g = LOCK.lock();\n", ["C09"])
m("M49", S+"implementors/slice.rs", "        let begin_idx = self.counter().fetch_and_add(number_to_fetch);\n        match begin_idx.cmp(&self.initial_len()) {", "        let begin_idx = self.counter().current();\n        let _ = self.counter().fetch_and_add(number_to_fetch);\n        match begin_idx.cmp(&self.initial_len()) {", ["C01", "C04"])
m("M51", S+"buffered/range.rs", "let begin_value = begin_idx + range.start.into();", "let begin_value = begin_idx;", ["C02"])
m("M52", S+"buffered/vec.rs", "iter.take_slice(begin_idx, self.chunk_size)", "iter.take_slice(begin_idx, self.chunk_size - 1)", ["C03", "C08"])
m("M54", S+"implementors/vec.rs", "self.split_off_right(current.min(self.vec_len))", "self.split_off_right(current)", ["C10"])
m("M56", S+"implementors/iter.rs", "                        false => self.completed.store(true, atomic::Ordering::SeqCst),", "                        false => {\n                            _ = self.yielded_counter.fetch_and_increment();\n                        }", ["C11"])
m("M57", S+"default_fns/for_each.rs", "            while let Some(chunk) = buffered_iter.next() {\n                chunk.values.for_each(&mut f);\n            }", "            while let Some(chunk) = buffered_iter.next() {\n                let short = chunk.values.len() < chunk_size;\n                chunk.values.for_each(&mut f);\n                if short {\n                    break;\n                }\n            }", ["C12", "C01"], harmless=True)
m("M58", S+"implementors/range.rs", "self.counter().store(self.range.end.into())", "self.counter().store(self.initial_len().saturating_sub(1))", ["C06"])
# ---- batch 3: added in the build round --------------------------------------------------------------
m("M60", S+"implementors/iter.rs", "                    std::mem::forget(guard);\n                    match next.is_some() {", "                    drop(guard);\n                    match next.is_some() {", ["C05", "C01", "C09"])
m("M61", S+"implementors/taken_slice.rs", "        unsafe { ptr::drop_in_place(ptr::slice_from_raw_parts_mut(self.ptr, self.len)) }", "        let _ = (self.ptr, self.len);", ["C08", "C15"])
m("M63", S+"implementors/range.rs", "            Ordering::Less => begin_value.saturating_add(n).min(self.range.end.into()),", "            Ordering::Less => (begin_value + n).min(self.range.end.into()),", ["C16"])
m("M64", S+"copied.rs", "        self.iter.into_seq_iter().copied()", "        let mut rest = self.iter.into_seq_iter();\n        let _ = rest.next();\n        rest.copied()", ["C13", "C10"])
m("M65", S+"implementors/iter.rs", "    fn into_seq_iter(self) -> Self::SeqIter {\n        self.iter.into_inner()\n    }", "    fn into_seq_iter(self) -> Self::SeqIter {\n        let mut it = self.iter.into_inner();\n        let _ = it.next();\n        it\n    }", ["C10", "C08"])

# harmless edits that add atomic accesses inside adaptor operations: the lock-step of C13 must not depend on event counts
m("M70", S+"cloned.rs", "    fn early_exit(&self) {\n        self.iter.early_exit()\n    }", "    fn early_exit(&self) {\n        let _ = self.iter.counter().current();\n        self.iter.early_exit();\n        let _ = self.iter.counter().current();\n    }", ["C13", "C06"], harmless=True)
m("M71", S+"copied.rs", "        self.iter.get(item_idx).copied()", "        let _ = self.iter.counter().current();\n        self.iter.get(item_idx).copied()", ["C13", "C01"], harmless=True)
m("M72", S+"cloned.rs", "        self.iter.progress_and_get_begin_idx(number_to_fetch)", "        let r = self.iter.progress_and_get_begin_idx(number_to_fetch);\n        let _ = self.iter.counter().current();\n        r", ["C13", "C03"], harmless=True)

# ---- semantics-preserving refactorings: every check named must stay silent ---------------------------------
m("M80", S+"atomic_counter.rs", "        let update = |current: usize| Some(current.saturating_add(len));\n        match self\n            .current\n            .fetch_update(Ordering::AcqRel, Ordering::Acquire, update)\n        {\n            Ok(previous) | Err(previous) => previous,\n        }", "        let mut current = self.current.load(Ordering::Acquire);\n        loop {\n            match self.current.compare_exchange_weak(current, current.saturating_add(len), Ordering::AcqRel, Ordering::Acquire) {\n                Ok(previous) => return previous,\n                Err(actual) => current = actual,\n            }\n        }", ["C01", "C04", "C06", "C07", "C09", "C16"], harmless=True)
m("M81", S+"atomic_counter.rs", ".fetch_update(Ordering::AcqRel, Ordering::Acquire, update)", ".fetch_update(Ordering::SeqCst, Ordering::SeqCst, update)", ["C07", "C01", "C09"], harmless=True)
m("M82", S+"implementors/iter.rs", "                    if self.completed.load(atomic::Ordering::Relaxed) {\n                        return None;\n                    }\n                }\n            }\n        }\n    }\n\n    fn fetch_n", "                    if self.completed.load(atomic::Ordering::SeqCst) {\n                        return None;\n                    }\n                }\n            }\n        }\n    }\n\n    fn fetch_n", ["C07", "C09", "C18"], harmless=True)
m("M83", S+"buffered/iter.rs", "        let older_count = iter.progress_yielded_counter(self.chunk_size());", "        for slot in self.values[i..].iter_mut() {\n            *slot = None;\n        }\n        let older_count = iter.progress_yielded_counter(self.chunk_size());", ["C03", "C04", "C08", "C18", "C15"], harmless=True)
m("M84", S+"implementors/slice.rs", "        let len = match current.cmp(&initial_len) {\n            std::cmp::Ordering::Less => initial_len - current,\n            _ => 0,\n        };", "        let len = initial_len.saturating_sub(current);", ["C11", "C16", "C19"], harmless=True)
m("M85", S+"implementors/iter.rs", "                Ordering::Greater => {\n                    if self.completed.load(atomic::Ordering::Relaxed) {\n                        return None;\n                    }\n                }\n            }\n        }\n    }\n\n    fn get", "                Ordering::Greater => {\n                    if self.completed.load(atomic::Ordering::Relaxed) {\n                        return None;\n                    }\n                    std::hint::spin_loop();\n                }\n            }\n        }\n    }\n\n    fn get", ["C07", "C09", "C05", "C01"], harmless=True)

LOCK_MOD = '''
/// test-and-set spin lock built from the crate's (monitored) atomic type
pub mod verif_lock {
    #[cfg(not(orx_concurrent_iter_verif))]
    use std::sync::atomic::AtomicUsize;
    #[cfg(orx_concurrent_iter_verif)]
    use crate::verif_hooks::AtomicUsize;
    use std::sync::atomic::Ordering;
    pub struct Lock(AtomicUsize);
    pub struct Guard<'a>(&'a Lock);
    impl Lock {
        pub const fn new() -> Self { Lock(AtomicUsize::new(0)) }
        pub fn lock(&self) -> Guard<'_> {
            while self.0.swap(1, Ordering::Acquire) == 1 {}
            Guard(self)
        }
    }
    impl Drop for Guard<'_> { fn drop(&mut self) { self.0 .0.store(0, Ordering::Release); } }
}
'''

def sh(cmd, **kw):
    return subprocess.run(cmd, shell=True, capture_output=True, text=True, **kw)

def restore():
    sh("git -C /repo checkout -- . && git -C /repo clean -fdq src")

def apply(mu):
    p = os.path.join(REPO, mu["file"])
    s = open(p).read()
    if s.count(mu["old"]) < 1:
        return False
    if mu.get("count", 1) == "M65":
        pass
    s = s.replace(mu["old"], mu["new"], 1)
    open(p, "w").write(s)
    if mu["id"] == "M47b":
        lp = os.path.join(REPO, "src/lib.rs")
        open(lp, "a").write(LOCK_MOD)
    return True

def main():
    args = sys.argv[1:]
    scale = "0.25"
    only = None
    checks_override = None
    if "--list" in args:
        for mu in M:
            print(mu["id"], mu["file"], "->", ",".join(mu["kills"]), "(harmless)" if mu["harmless"] else "")
        return
    if "--scale" in args:
        scale = args[args.index("--scale") + 1]
    if "--only" in args:
        only = set(args[args.index("--only") + 1].split(","))
    if "--checks" in args:
        checks_override = args[args.index("--checks") + 1].split(",")
    status = sh("git -C /repo status --porcelain").stdout.strip()
    if status:
        print("refusing to run: /repo has uncommitted changes:\n" + status)
        sys.exit(2)
    results = {}
    out_path = os.path.join(ROOT, "notes", "mutant_results.json")
    if os.path.exists(out_path):
        try:
            results = json.load(open(out_path))
        except Exception:
            results = {}
    for mu in M:
        if only and mu["id"] not in only:
            continue
        try:
            if not apply(mu):
                print(f"{mu['id']}: pattern not found in {mu['file']} (skipped)")
                results[mu["id"]] = {"status": "pattern-not-found"}
                continue
            row = {}
            checks = checks_override or mu["kills"]
            for c in checks:
                t0 = time.time()
                env = dict(os.environ, VERIF_SCALE=scale)
                r = subprocess.run([os.path.join(ROOT, "check"), c, "quick"], capture_output=True, text=True, env=env, cwd=ROOT)
                viol = [l for l in r.stdout.splitlines() if l.startswith("violation [")]
                row[c] = {"exit": r.returncode, "wall_s": round(time.time() - t0, 1), "sig": viol[0][:200] if viol else ""}
                if r.returncode == 2:
                    row[c]["msg"] = r.stdout[-300:]
            results[mu["id"]] = {"harmless": mu["harmless"], "expect": mu["kills"], "checks": row}
            killed = [c for c, v in row.items() if v["exit"] == 1]
            flag = ""
            if mu["harmless"]:
                flag = "OK (silent)" if not killed else "FALSE ALARM"
            else:
                flag = "killed by " + ",".join(killed) if killed else "SURVIVED"
                if killed and set(killed) != set(checks):
                    flag += "  (missed by " + ",".join(c for c in checks if c not in killed) + ")"
            print(f"{mu['id']}: {flag}   " + " ".join(f"{c}={v['exit']}({v['wall_s']}s)" for c, v in row.items()), flush=True)
        finally:
            restore()
        json.dump(results, open(out_path, "w"), indent=1)
    # remove replay files written for mutants
    sh(f"rm -f {ROOT}/replays/*/found-*.json")

main()
