#!/bin/bash
# For every seeded change named on the command line (e.g. C01-r5): apply it, run the owner's quick tier, keep the
# shrunk failing case as replays/<ID>/seed-<seed>.json, undo the change; afterwards every kept file must pass on
# the unchanged tree (a file that does not is removed and reported).
cd "$(dirname "$0")/.."
if [ -n "$(git -C /repo status --porcelain)" ]; then echo "refusing: /repo has uncommitted changes"; exit 2; fi
for sid in "$@"; do
  id=${sid%%-*}
  rm -f replays/$id/found-*.json
  git -C /repo apply /verif/seeded/$sid/patch.diff || { echo "$sid: patch does not apply"; continue; }
  ./check $id quick >/dev/null 2>&1
  git -C /repo checkout -- . && git -C /repo clean -fdq src
  f=$(ls -t replays/$id/found-*.json 2>/dev/null | head -1)
  if [ -n "$f" ]; then cp "$f" replays/$id/seed-$sid.json; echo "$sid: kept $(wc -c < "$f") bytes"; else echo "$sid: no case file (violation without a replayable case?)"; fi
  rm -f replays/$id/found-*.json replays/$id/hung-*.json
done
for sid in "$@"; do
  id=${sid%%-*}; f=replays/$id/seed-$sid.json
  [ -f "$f" ] || continue
  out=$(./check $id --replay $f 2>&1); rc=$?
  if [ $rc -ne 0 ]; then echo "$sid: the kept case does not pass on the unchanged tree (exit $rc): removed"; echo "$out" | tail -2; rm -f "$f"; fi
done
