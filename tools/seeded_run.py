#!/usr/bin/env python3
"""Run checks against a seeded change: apply /verif/seeded/<id>/patch.diff to /repo, run the checks, undo.
usage: tools/seeded_run.py <seed-id> <check> [<check> ...] [--scale 0.25] [--tier quick]"""
import json, os, subprocess, sys, time
ROOT = os.path.dirname(os.path.dirname(os.path.abspath(__file__)))
def sh(c): return subprocess.run(c, shell=True, capture_output=True, text=True)
args = sys.argv[1:]
scale = "1"
if "--scale" in args:
    i = args.index("--scale"); scale = args[i+1]; del args[i:i+2]
tier = "quick"
if "--tier" in args:
    i = args.index("--tier"); tier = args[i+1]; del args[i:i+2]
seed, checks = args[0], args[1:]
if sh("git -C /repo status --porcelain").stdout.strip():
    print("refusing: /repo has uncommitted changes"); sys.exit(2)
patch = os.path.join(ROOT, "seeded", seed, "patch.diff")
r = sh(f"git -C /repo apply {patch}")
if r.returncode != 0:
    print("patch does not apply:", r.stderr); sys.exit(2)
res = {}
try:
    for c in checks:
        t0 = time.time()
        env = dict(os.environ, VERIF_SCALE=scale)
        p = subprocess.run([os.path.join(ROOT, "check"), c, tier], capture_output=True, text=True, env=env, cwd=ROOT)
        viol = [l for l in p.stdout.splitlines() if l.startswith("violation [") or l.startswith("INCONCLUSIVE")]
        res[c] = {"exit": p.returncode, "wall_s": round(time.time()-t0, 1), "first": (viol[0][:300] if viol else "")}
        print(f"{seed} vs {c}: exit {p.returncode} in {res[c]['wall_s']}s  {res[c]['first']}", flush=True)
finally:
    sh("git -C /repo checkout -- . && git -C /repo clean -fdq src")
    sh(f"rm -f {ROOT}/replays/*/found-*.json {ROOT}/replays/*/found-*.rs {ROOT}/replays/*/hung-*.json")
out = os.path.join(ROOT, "notes", "seeded_results.json")
allr = json.load(open(out)) if os.path.exists(out) else {}
allr.setdefault(seed, {}).update(res)
json.dump(allr, open(out, "w"), indent=1)
