#!/bin/bash
# Runs every check's quick tier on the unchanged tree with several seeds, each from a fresh process.
# usage: tools/silence.sh [seeds...]      (default: 1 2 3 7 11)      VERIF_SCALE applies
cd "$(dirname "$0")/.."
if [ -n "$(git -C /repo status --porcelain)" ]; then echo "refusing: /repo has uncommitted changes"; exit 2; fi
SEEDS="${@:-1 2 3 7 11}"
bad=0
for s in $SEEDS; do
  for id in C01 C02 C03 C04 C05 C06 C07 C08 C09 C10 C11 C12 C13 C14 C15 C16 C17 C18 C19; do
    out=$(VERIF_SEED=$s ./check $id quick 2>&1); rc=$?
    if [ $rc -ne 0 ] || echo "$out" | grep -q '^VIOLATION'; then
      bad=$((bad+1)); echo "seed $s $id: exit $rc"; echo "$out" | grep -E '^(violation|VIOLATION|INCONCLUSIVE)' | head -3
    else
      echo "seed $s $id: silent ($(echo "$out" | grep -E "^$id quick" | tr '\n' ' '))"
    fi
  done
done
echo "non-silent runs: $bad"
exit $((bad > 0))
